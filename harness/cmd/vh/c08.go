package main

// C08 — Exchange terminates, honours its context, resends verbatim, leaks nothing.
//
// A case is a scenario: request, client configuration, peer behaviour and cancellation instant.
// The real Client.Exchange runs against a scripted loopback peer; what is reported are observations
// as classes and booleans (never raw timings):
//
//	class       how Exchange returned (identity of the error, not its text)
//	pkt         the returned packet
//	first       the first datagram the peer received
//	verbatim    every datagram the peer received equals the first
//	resends     number of retransmissions: exactly 0 when Retry <= 0, within generous bounds of elapsed/Retry otherwise
//	prompt      Exchange returned within 250 ms of the cancellation / deadline
//	silent      nothing arrived at the peer after Exchange returned (ordering by a sentinel datagram, not by clocks)
//	goroutines  200 ms after the return no goroutine whose stack mentions radius.(*Client).Exchange is left AND the
//	            process has no more goroutines than before the call, the harness's own (counted one by one) excluded:
//	            that also sees goroutines parked in other packages on behalf of the call (context.propagateCancel, …)
//	fds         /proc/self/fd is back to its size before the call within 200 ms (a peer socket the scenario itself
//	            closes meanwhile is subtracted from the baseline)
//
// … and, next to the classes, the RAW observation the class `resends` was computed from, for the timed layer of the
// Lean model (RV.Exchange.Timed; the driver evaluates the model's own bounds on these numbers):
//
//	t0=0        the clock: whole milliseconds (rounded down) since the instant just before Exchange was CALLED.  The
//	            model's t0 (first write, ticker creation) is not before that instant, so every lower bound the model
//	            proves for a write time holds a fortiori with t0 := 0 on this clock
//	arr         arrival instant of every request datagram at the peer (those before the sentinel), comma separated;
//	            "-" = the peer saw none, "na" = the peer cannot report (closed port, vanished / deaf peer)
//	end         the instant Exchange had returned by (taken right after it returned); "na" if it never did (HANG)
//	d           Client.Retry in milliseconds
//
// A datagram is seen after it was written, a write follows the tick, a tick is never delivered before it is due
// (the runtime compares against the same monotonic clock time.Now reads), Exchange does not return before its
// last successful write has completed (Close waits for a write in flight; later writes fail): so on this clock
// arr[i] >= i*d and len(arr) <= 1 + end/d hold of the unchanged code whatever the load - lateness only helps.
//
// Further dimensions:
//
//	peer nodial:<v>  the address cannot be dialled (v=0 "127.0.0.1" without a port, 1 port 99999, 2 unixgram path that does
//	                 not exist, 3 unknown network): DialContext fails at once; a UDP listener of the harness stays up only to
//	                 witness that nothing is sent anywhere it could see
//	peer vanish      Client.Net = "unixgram"; the peer is a unixgram socket in a temporary directory that reads the first
//	                 datagram and is then closed and unlinked: every retransmission FAILS (ECONNREFUSED / ENOTCONN) while the
//	                 pending Read just blocks; only the context ends the call
//	ctx std|wrap     (optional 13th field, default std) wrap: the context handed to Exchange is a user-defined type around
//	                 the standard one (Deadline/Err/Value delegated, its OWN Done channel closed by a forwarding goroutine of
//	                 the harness), so that context.WithCancel cannot use its internal fast path and parks a goroutine
//
// Everything that can be made event-driven is (cancellation "after the peer has received its j-th datagram",
// replies "after the k-th retransmission"); the clauses that remain timing dependent (prompt, resends with
// Retry > 0, goroutines, fds) are re-measured: a scenario in which one of them fails is run up to two more
// times and the clause is reported as failed only if it fails in all three runs.  The same goes for a WithTimeout
// scenario in which the deadline passed before the request was written at all (c08obs.early).

import (
	"bytes"
	"context"
	"errors"
	"net"
	"os"
	"path/filepath"
	"runtime"
	"strings"
	"sync"
	"sync/atomic"
	"syscall"
	"time"

	"layeh.com/radius"
)

func init() {
	props["C08"] = &prop{gen: genC08, eval: evalC08, timeout: 90 * time.Second}
}

var c08Sentinel = []byte("\x00vh-sentinel")

type c08peerLog struct {
	mu       sync.Mutex
	dgrams   [][]byte
	times    []time.Time
	from     *net.UDPAddr
	sentinel int  // number of datagrams received before the sentinel, -1 while not seen
	vanished bool // (vanish) the peer has taken its one datagram and is closed and unlinked
	notify   chan struct{}
	onFirst  func() // run once, when the first request datagram has arrived
}

func (l *c08peerLog) reader(conn *net.UDPConn) {
	buf := make([]byte, 8192)
	for {
		n, addr, err := conn.ReadFromUDP(buf)
		if err != nil {
			return
		}
		now := time.Now()
		l.mu.Lock()
		if bytes.Equal(buf[:n], c08Sentinel) {
			if l.sentinel < 0 {
				l.sentinel = len(l.dgrams)
			}
		} else {
			l.dgrams = append(l.dgrams, append([]byte{}, buf[:n]...))
			l.times = append(l.times, now)
			if len(l.dgrams) == 1 && l.onFirst != nil {
				l.onFirst()
			}
			if l.from == nil {
				l.from = addr
			}
		}
		l.mu.Unlock()
		select {
		case l.notify <- struct{}{}:
		default:
		}
	}
}

// readerUnix: the same log for a unixgram peer that stays (peer kind usilent)
func (l *c08peerLog) readerUnix(conn *net.UnixConn) {
	buf := make([]byte, 8192)
	for {
		n, _, err := conn.ReadFromUnix(buf)
		if err != nil {
			return
		}
		now := time.Now()
		l.mu.Lock()
		if bytes.Equal(buf[:n], c08Sentinel) {
			if l.sentinel < 0 {
				l.sentinel = len(l.dgrams)
			}
		} else {
			l.dgrams = append(l.dgrams, append([]byte{}, buf[:n]...))
			l.times = append(l.times, now)
			if len(l.dgrams) == 1 && l.onFirst != nil {
				l.onFirst()
			}
		}
		l.mu.Unlock()
		select {
		case l.notify <- struct{}{}:
		default:
		}
	}
}

// waitFor blocks until pred holds (checked under the lock), stop is closed, or the timeout expires.
func (l *c08peerLog) waitFor(pred func() bool, stop <-chan struct{}, timeout time.Duration) bool {
	deadline := time.NewTimer(timeout)
	defer deadline.Stop()
	for {
		l.mu.Lock()
		ok := pred()
		l.mu.Unlock()
		if ok {
			return true
		}
		select {
		case <-l.notify:
		case <-time.After(2 * time.Millisecond):
		case <-stop:
			return false
		case <-deadline.C:
			return false
		}
	}
}

func c08ExchangeGoroutines() int {
	buf := make([]byte, 1<<20)
	n := runtime.Stack(buf, true)
	count := 0
	for _, g := range strings.Split(string(buf[:n]), "\n\n") {
		if strings.Contains(g, "radius.(*Client).Exchange") {
			count++
		}
	}
	return count
}

func c08CountFDs() int {
	es, err := os.ReadDir("/proc/self/fd")
	if err != nil {
		return -1
	}
	return len(es)
}

// c08Live counts the goroutines the harness itself has started and that have not finished: the goroutine census
// compares runtime.NumGoroutine() minus this number before and after the call.  (A harness goroutine that has
// decremented the counter but not quite exited yet makes the difference too large for an instant; the census
// polls, and only an excess that persists for the whole settle period counts.)
var c08Live atomic.Int64

func c08Go(f func()) {
	c08Live.Add(1)
	go func() {
		defer c08Live.Add(-1)
		f()
	}()
}

func c08ForeignGoroutines() int { return runtime.NumGoroutine() - int(c08Live.Load()) }

// c08wrapCtx is a context of a type the context package does not know: everything is delegated to the standard
// context inside except Done, which is the wrapper's own channel, closed by a forwarding goroutine (of the
// harness, counted in c08Live) when the inner context is done.  The forwarder ends when the inner context is
// cancelled, which runC08 always does on its way out.
type c08wrapCtx struct {
	inner context.Context
	done  chan struct{}
}

func c08Wrap(inner context.Context) *c08wrapCtx {
	w := &c08wrapCtx{inner: inner, done: make(chan struct{})}
	if inner.Err() != nil {
		close(w.done) // already done: no goroutine, Done is closed before Exchange is called
		return w
	}
	c08Go(func() {
		<-inner.Done()
		close(w.done)
	})
	return w
}

func (w *c08wrapCtx) Deadline() (time.Time, bool) { return w.inner.Deadline() }
func (w *c08wrapCtx) Done() <-chan struct{}       { return w.done }
func (w *c08wrapCtx) Err() error {
	// like every context: Err is non-nil only once Done is closed
	select {
	case <-w.done:
		return w.inner.Err()
	default:
		return nil
	}
}
func (w *c08wrapCtx) Value(k any) any { return w.inner.Value(k) }

type c08scenario struct {
	req            *radius.Packet
	retry          time.Duration
	maxErr         int
	skip           bool
	peer           string // silent | closed | flood | late | nodial | vanish
	variant        int    // nodial: which undialable address
	wrap           bool   // the context is a c08wrapCtx
	cause          bool   // the context carries a cause other than its Err()
	k, g, m        int
	cancel         string // never | pre | predeadline | at | deadline
	j              int
	delay          time.Duration
	reply, garbage []byte
}

type c08obs struct {
	class, pkt, first, verbatim, resends, prompt, silent, goroutines, fds string
	// the raw observation behind `resends` (see the head of the file)
	arr, end string
	// lag: whole ms between the peer sending the reply that was returned and the return ("na": no reply returned)
	lag string
	// t0Ms: the instant the Dialer's Control hook returned (whole ms since the call began; 0 if it never ran): the
	// socket exists, nothing has been written yet - an origin that is not after the model's t0
	t0Ms    int
	retryMs int
	// timedBad: the numbers violate the model's upper bounds as the Lean driver will evaluate them (same formula, same
	// allowance).  Used ONLY to decide whether the scenario is measured again, like the other timing clauses; the
	// verdict is the driver's.
	timedBad bool
	// early: a context.WithTimeout scenario whose deadline passed before the request was even written (a machine busy
	// enough to stall the call for the whole timeout): not what the scenario is about, it is re-run like a failed timing clause
	early bool
	// stale: … and the reason is the harness's own delay between creating the context and calling Exchange
	stale bool
}

func (o c08obs) String() string {
	return "class=" + o.class + " pkt=" + o.pkt + " first=" + o.first + " verbatim=" + o.verbatim + " resends=" + o.resends +
		" prompt=" + o.prompt + " silent=" + o.silent + " goroutines=" + o.goroutines + " fds=" + o.fds +
		" t0=" + itoa(o.t0Ms) + " arr=" + o.arr + " end=" + o.end + " d=" + itoa(o.retryMs) + " lag=" + o.lag
}

// c08TolMs: the allowance (milliseconds) with which the model's bounds are evaluated on the raw numbers; the same
// constant as `RV.Driver.c08TolMs`.  The bounds need none (see the head of the file); one millisecond is a margin
// for the rounding of the printed values.
const c08TolMs = 1

// c08TimedBad mirrors RV.Exchange.Timed.obsNotEarly / obsCountOk (d = max(Retry, 0) in ms; x/0 = 0).
func c08TimedBad(arr []int, end, dms, t0 int) bool {
	if dms < 0 {
		dms = 0
	}
	sub := func(a int) int { // (natural-number subtraction, as in the driver)
		if a < t0 {
			return 0
		}
		return a - t0
	}
	for i, a := range arr {
		if i*dms > sub(a)+c08TolMs {
			return true
		}
	}
	q := 0
	if dms > 0 {
		q = (sub(end) + c08TolMs) / dms
	}
	return len(arr) > 1+q
}

// timingOK: none of the clauses that depend on scheduling failed.
func (o c08obs) timingOK() bool {
	// (the goroutine and descriptor census is NOT re-measured here: a leak that shows in every second run would
	// survive three attempts one time in eight, and ./check runs a failing case again, alone, anyway)
	return !o.early && !o.timedBad && o.prompt != "false" && o.resends != "toofew" && o.resends != "toomany" && !o.lagBad()
}

// lagBad: a reply that was returned more than 250 ms after the peer had sent it
func (o c08obs) lagBad() bool {
	if o.lag == "na" || o.lag == "" {
		return false
	}
	return atoi(o.lag) >= 250
}

func c08Class(err error) string {
	switch {
	case err == nil:
		return "reply"
	case err == context.Canceled: // identity: the context's own error, not something that merely "is" it
		return "ctx-canceled"
	case err == context.DeadlineExceeded:
		return "ctx-deadline"
	}
	var na *radius.NonAuthenticResponseError
	if errors.As(err, &na) {
		return "nonauthentic"
	}
	var oe *net.OpError
	if errors.As(err, &oe) {
		if oe.Op == "dial" {
			return "dial-error"
		}
		return "net-error"
	}
	var ne net.Error
	if errors.As(err, &ne) {
		return "net-error"
	}
	if strings.Contains(err.Error(), "unknown Packet Code") || strings.Contains(err.Error(), "too large") {
		return "encode-err"
	}
	return "parse-error"
}

// the addresses of the nodial peer: {Client.Net, addr}; an empty addr stands for the harness's own listener
var c08Nodial = [][2]string{
	{"", "127.0.0.1"},                               // missing port
	{"", "127.0.0.1:99999"},                         // invalid port
	{"unixgram", "/proc/vh-c08-nonexistent/p.sock"}, // connect: no such file or directory
	{"vh-no-such-network", ""},                      // unknown network
	{"", ""},                                        // the dialer's Control hook reports EMFILE: a dial error that calls itself temporary
}

// vanishReader is the peer of the vanish scenario: it takes the first datagram, then the socket is closed and its
// path unlinked, so that whatever the client writes from then on fails while the client's Read keeps blocking.
func (l *c08peerLog) vanishReader(conn *net.UnixConn, path string, fdAdjust *atomic.Int64) {
	buf := make([]byte, 8192)
	n, _, err := conn.ReadFromUnix(buf)
	if err != nil {
		return // closed by runC08 on its way out: the client never wrote
	}
	now := time.Now()
	conn.Close()
	os.Remove(path)
	fdAdjust.Add(-1)
	l.mu.Lock()
	l.dgrams = append(l.dgrams, append([]byte{}, buf[:n]...))
	l.times = append(l.times, now)
	l.vanished = true
	l.mu.Unlock()
	select {
	case l.notify <- struct{}{}:
	default:
	}
}

func runC08(sc *c08scenario) c08obs {
	obs := c08obs{pkt: "-", first: "-", verbatim: "na", resends: "na", prompt: "na", silent: "na", goroutines: "na", fds: "na",
		arr: "na", end: "na", lag: "na", retryMs: int(sc.retry / time.Millisecond)}
	_, encErr := sc.req.Encode()

	// peer and sentinel sockets (part of the descriptor baseline)
	log := &c08peerLog{sentinel: -1, notify: make(chan struct{}, 1)}
	// "retransmits the byte-identical request": once the first datagram is out the caller changes the packet
	// value it passed (another identifier, one more attribute) — what is resent is what was sent, not a new encoding
	req := sc.req
	origID, origAttrs := req.Identifier, req.Attributes
	defer func() { req.Identifier, req.Attributes = origID, origAttrs }() // (a scenario may be run again)
	log.onFirst = func() {
		req.Identifier ^= 0x55
		req.Attributes = append(req.Attributes, &radius.AVP{Type: 18, Attribute: radius.Attribute("changed-after-the-first-send")})
	}
	var peer *net.UDPConn
	var sentinelConn *net.UDPConn
	var probe *net.UnixConn
	var network, addr string
	var fdAdjust atomic.Int64 // sockets of the baseline that the scenario itself closes during the call (negative)
	var upeer, usentinel *net.UnixConn
	if sc.peer == "usilent" {
		// a datagram network that is not UDP, with a peer that stays and never answers: everything the property says
		// about retransmission holds on it as on UDP
		dir, err := os.MkdirTemp("", "vh-c08-")
		if err != nil {
			obs.class = "HARNESS-tmpdir"
			return obs
		}
		defer os.RemoveAll(dir)
		path := filepath.Join(dir, "p.sock")
		ua := &net.UnixAddr{Name: path, Net: "unixgram"}
		ul, err := net.ListenUnixgram("unixgram", ua)
		if err != nil {
			obs.class = "HARNESS-listen"
			return obs
		}
		defer ul.Close()
		upeer = ul
		c08Go(func() { log.readerUnix(ul) })
		if usentinel, err = net.DialUnix("unixgram", nil, ua); err != nil {
			obs.class = "HARNESS-dial"
			return obs
		}
		defer usentinel.Close()
		network, addr = "unixgram", path
	} else if sc.peer == "vanish" || sc.peer == "deaf" {
		dir, err := os.MkdirTemp("", "vh-c08-")
		if err != nil {
			obs.class = "HARNESS-tmpdir"
			return obs
		}
		defer os.RemoveAll(dir)
		path := filepath.Join(dir, "p.sock")
		ua := &net.UnixAddr{Name: path, Net: "unixgram"}
		ul, err := net.ListenUnixgram("unixgram", ua)
		if err != nil {
			obs.class = "HARNESS-listen"
			return obs
		}
		defer ul.Close()
		// a second client of the same peer: after the call it tells whether writes to the vanished peer do fail
		if probe, err = net.DialUnix("unixgram", nil, ua); err != nil {
			obs.class = "HARNESS-dial"
			return obs
		}
		defer probe.Close()
		network, addr = "unixgram", path
		if sc.peer == "deaf" {
			// the peer is there (the dial succeeds) but has shut down its receiving side: already the FIRST
			// write fails, and nobody ever sees a datagram
			ul.CloseRead()
			log.mu.Lock()
			log.vanished = true
			log.mu.Unlock()
		} else {
			c08Go(func() { log.vanishReader(ul, path, &fdAdjust) })
		}
	} else {
		l, err := net.ListenUDP("udp4", &net.UDPAddr{IP: net.IPv4(127, 0, 0, 1)})
		if err != nil {
			obs.class = "HARNESS-listen"
			return obs
		}
		addr = l.LocalAddr().String()
		if sc.peer == "closed" {
			l.Close()
		} else {
			peer = l
			defer peer.Close()
		}
		if peer != nil {
			c08Go(func() { log.reader(peer) })
			sentinelConn, err = net.DialUDP("udp4", nil, peer.LocalAddr().(*net.UDPAddr))
			if err != nil {
				obs.class = "HARNESS-dial"
				return obs
			}
			defer sentinelConn.Close()
		}
		if sc.peer == "nodial" {
			nd := c08Nodial[sc.variant]
			network = nd[0]
			if nd[1] != "" {
				addr = nd[1]
			}
		}
	}

	client := &radius.Client{Net: network, Retry: sc.retry, MaxPacketErrors: sc.maxErr, InsecureSkipVerify: sc.skip}
	// the dial takes time in one scenario in three (0.6 x Retry, for intervals of 20..200 ms): the interval counts
	// from the first transmission, not from the beginning of the call.  The hook's return is the clock origin `t0`.
	var ctrlAt atomic.Int64
	var dialDelay time.Duration
	if sc.retry >= 20*time.Millisecond && sc.retry <= 200*time.Millisecond && (len(sc.reply)+len(sc.garbage)+sc.k)%3 == 0 {
		dialDelay = sc.retry * 6 / 10
	}
	var callStarted atomic.Bool
	var start time.Time
	dialRefused := sc.peer == "nodial" && sc.variant == 4
	client.Dialer.Control = func(network, address string, c syscall.RawConn) error {
		if dialRefused {
			// (too many open files - as often as the dial is tried: "or with the network error", not "try again")
			return syscall.EMFILE
		}
		if dialDelay > 0 {
			time.Sleep(dialDelay)
		}
		if callStarted.Load() {
			// (the same monotonic clock as the arrival instants and the instant of the return)
			ctrlAt.Store(int64(time.Since(start)))
		}
		return nil
	}
	var ctx context.Context
	var cancel context.CancelFunc
	var ctxCreated time.Time
	// flavour `cause`: the context carries a CAUSE of the caller's own (context.WithCancelCause / WithTimeoutCause /
	// WithDeadlineCause): `ctx.Err()` is still context.Canceled / DeadlineExceeded - "the context's own error" -
	// while context.Cause(ctx) is something else
	reason := errors.New("the caller's reason for ending the context")
	switch {
	case sc.cause && sc.cancel == "predeadline":
		ctx, cancel = context.WithDeadlineCause(context.Background(), time.Now().Add(-time.Second), reason)
	case sc.cause && sc.cancel == "deadline":
		ctxCreated = time.Now()
		ctx, cancel = context.WithTimeoutCause(context.Background(), sc.delay, reason)
	case sc.cause:
		c2, cc := context.WithCancelCause(context.Background())
		ctx, cancel = c2, func() { cc(reason) }
	case sc.cancel == "predeadline":
		ctx, cancel = context.WithDeadline(context.Background(), time.Now().Add(-time.Second))
	case sc.cancel == "deadline":
		ctxCreated = time.Now()
		ctx, cancel = context.WithTimeout(context.Background(), sc.delay)
	default:
		ctx, cancel = context.WithCancel(context.Background())
	}
	defer cancel() // (also ends the forwarding goroutine of a wrapped context)
	if sc.cancel == "pre" {
		cancel()
	}
	var cancelTime time.Time
	if dl, ok := ctx.Deadline(); ok && sc.cancel == "deadline" {
		cancelTime = dl
	}
	if sc.wrap {
		ctx = c08Wrap(ctx)
	}

	// baselines: taken with every goroutine and descriptor of the harness in place
	runtime.Gosched()
	baseG := c08ExchangeGoroutines()
	baseAll := c08ForeignGoroutines()
	baseFD := c08CountFDs()

	type res struct {
		p   *radius.Packet
		err error
		at  time.Time
	}
	done := make(chan res, 1)
	stop := make(chan struct{}) // closed when Exchange has returned (or was given up)
	var cancelMu sync.Mutex
	start = time.Now()
	if sc.cancel == "pre" || sc.cancel == "predeadline" {
		cancelTime = start
	}
	callStarted.Store(true)
	// the premise of a WithTimeout scenario is that the call BEGINS with (most of) its time budget: on a machine
	// busy enough to spend half of it between the creation of the context and this point (the baselines above
	// walk every goroutine's stack) the run says nothing about the library - it is re-measured
	staleDeadline := sc.cancel == "deadline" && !ctxCreated.IsZero() && 2*start.Sub(ctxCreated) > sc.delay
	var fdAtReturn atomic.Int64
	fdAtReturn.Store(-1)
	c08Go(func() {
		p, err := client.Exchange(ctx, sc.req, addr)
		at := time.Now()
		// "after it returns its socket is closed": sampled by the caller itself, before anything else runs
		fdAtReturn.Store(int64(c08CountFDs()))
		done <- res{p, err, at}
	})

	// the peer's script
	var replySentAt atomic.Int64 // (wall clock, compared with r.at only when a reply came back)
	if peer != nil {
		switch sc.peer {
		case "late":
			c08Go(func() {
				if !log.waitFor(func() bool { return len(log.dgrams) >= sc.k+1 }, stop, 6*time.Second) {
					return
				}
				to := log.from
				for i := 0; i < sc.g; i++ {
					peer.WriteToUDP(sc.garbage, to)
				}
				replySentAt.Store(time.Now().UnixNano())
				peer.WriteToUDP(sc.reply, to)
				for i := 0; i < sc.m; i++ {
					if i%2 == 0 {
						peer.WriteToUDP(sc.garbage, to)
					} else {
						peer.WriteToUDP(sc.reply, to)
					}
				}
			})
		case "flood":
			c08Go(func() {
				if !log.waitFor(func() bool { return len(log.dgrams) >= 1 }, stop, 6*time.Second) {
					return
				}
				to := log.from
				for i := 0; i < 20000; i++ {
					select {
					case <-stop:
						return
					default:
					}
					peer.WriteToUDP(sc.garbage, to)
					time.Sleep(200 * time.Microsecond)
				}
			})
		}
	}
	if sc.cancel == "at" && (peer != nil || upeer != nil || sc.peer == "vanish" || sc.peer == "deaf") {
		c08Go(func() {
			// "after the peer received its j-th datagram"; the vanishing peer receives one, and is gone by then
			pred := func() bool { return len(log.dgrams) >= sc.j }
			if sc.peer == "vanish" || sc.peer == "deaf" {
				pred = func() bool { return log.vanished }
			}
			if !log.waitFor(pred, stop, 6*time.Second) {
				return
			}
			if sc.delay > 0 {
				select {
				case <-time.After(sc.delay):
				case <-stop:
					return
				}
			}
			cancelMu.Lock()
			cancelTime = time.Now()
			cancelMu.Unlock()
			cancel()
		})
	}

	// wait for the return (watchdog)
	var r res
	select {
	case r = <-done:
	case <-time.After(c08Watchdog(sc)):
		close(stop)
		obs.class = "HANG"
		cancel()
		select {
		case <-done:
		case <-time.After(500 * time.Millisecond):
		}
		return obs
	}
	// ordering mark: whatever the peer reads after this datagram was sent after Exchange returned
	if sentinelConn != nil {
		sentinelConn.Write(c08Sentinel)
	}
	if usentinel != nil {
		usentinel.Write(c08Sentinel)
	}
	close(stop)
	obs.class = c08Class(r.err)
	if staleDeadline {
		obs.early, obs.stale = true, true
	}
	obs.t0Ms = int(time.Duration(ctrlAt.Load()) / time.Millisecond)
	endMs := int(r.at.Sub(start) / time.Millisecond)
	obs.end = itoa(endMs)
	if encErr != nil && obs.class == "parse-error" {
		obs.class = "encode-err"
	}
	if r.err == nil && r.p != nil {
		obs.pkt = itoa(int(r.p.Code)) + "/" + itoa(int(r.p.Identifier)) + "/" + hx(r.p.Authenticator[:]) + "/" + showAttributes(r.p.Attributes)
	}
	if r.err == nil && r.p == nil {
		obs.class = "nil-nil"
	}
	// "with the reply as soon as an acceptable one arrives": how long after the peer had sent it did the call return
	if obs.class == "reply" && replySentAt.Load() != 0 {
		lag := r.at.Sub(time.Unix(0, replySentAt.Load()))
		if lag < 0 {
			lag = 0
		}
		obs.lag = itoa(int(lag / time.Millisecond))
	}

	if sc.cancel == "deadline" && obs.class == "ctx-deadline" && encErr == nil && sc.peer != "closed" && sc.peer != "nodial" {
		log.mu.Lock()
		obs.early = len(log.dgrams) == 0
		log.mu.Unlock()
	}

	// census: goroutines and descriptors back to the baseline within 200 ms
	gOK, fdOK := false, false
	censusEnd := r.at.Add(200 * time.Millisecond)
	for {
		if !gOK && c08ExchangeGoroutines() <= baseG && c08ForeignGoroutines() <= baseAll {
			gOK = true
		}
		if !fdOK {
			if n := c08CountFDs(); n >= 0 && n <= baseFD+int(fdAdjust.Load()) {
				fdOK = true
			}
		}
		if (gOK && fdOK) || time.Now().After(censusEnd) {
			break
		}
		time.Sleep(time.Millisecond)
	}
	if n := int(fdAtReturn.Load()); fdOK && n >= 0 && n > baseFD && sc.peer != "vanish" && sc.peer != "deaf" {
		// closed a little later (by another goroutine): at the return it was still open
		fdOK = false
	}
	obs.goroutines = boolStr(gOK)
	obs.fds = boolStr(fdOK)
	if !gOK && os.Getenv("VH_TRACE") != "" {
		buf := make([]byte, 1<<20)
		os.Stderr.WriteString("c08 trace: goroutines: exchange " + itoa(c08ExchangeGoroutines()) + "/" + itoa(baseG) + " all " +
			itoa(c08ForeignGoroutines()) + "/" + itoa(baseAll) + "\n" + string(buf[:runtime.Stack(buf, true)]) + "\n")
	}

	// promptness
	cancelMu.Lock()
	ct := cancelTime
	cancelMu.Unlock()
	if strings.HasPrefix(obs.class, "ctx-") {
		if ct.IsZero() {
			obs.prompt = "false" // a context error although the context was never cancelled
		} else {
			obs.prompt = boolStr(r.at.Sub(ct) < 250*time.Millisecond)
		}
	}

	if sc.peer == "vanish" || sc.peer == "deaf" {
		// what the peer took before it went away; nothing can be seen of the retransmissions (they fail)
		log.mu.Lock()
		vanished := log.vanished
		if len(log.dgrams) > 0 {
			obs.first = hx(log.dgrams[0])
		}
		if sc.peer == "deaf" && encErr == nil && obs.class != "ctx-canceled-before-dial" {
			obs.first = "na" // whatever was written, nobody could see it
		}
		log.mu.Unlock()
		// the premise of the scenario: writing to the vanished peer fails
		if vanished {
			if _, err := probe.Write([]byte{0}); err == nil {
				obs.class = "HARNESS-vanished-peer-still-writable"
			}
		}
		if os.Getenv("VH_TRACE") != "" {
			os.Stderr.WriteString("c08 trace: " + sc.peer + " " + sc.cancel + " retry=" + sc.retry.String() +
				" elapsed=" + r.at.Sub(start).String() + " sinceCancel=" + r.at.Sub(ct).String() + " " + obs.String() + "\n")
		}
		return obs
	}
	if peer == nil && upeer == nil {
		if encErr == nil && sc.cancel != "pre" && sc.cancel != "predeadline" {
			obs.first = "na" // something was written, but nobody is there to see it
		}
		return obs
	}
	// silence after the return: wait for the sentinel, then watch for max(50 ms, 3 x Retry) (capped)
	window := 3 * sc.retry
	if window < 50*time.Millisecond {
		window = 50 * time.Millisecond
	}
	if window > 150*time.Millisecond {
		window = 150 * time.Millisecond
	}
	never := make(chan struct{})
	log.waitFor(func() bool { return log.sentinel >= 0 }, never, 2*time.Second)
	if rest := window - time.Since(r.at); rest > 0 {
		time.Sleep(rest)
	}
	log.mu.Lock()
	before := len(log.dgrams)
	if log.sentinel >= 0 {
		before = log.sentinel
		obs.silent = boolStr(len(log.dgrams) == log.sentinel)
	} else {
		obs.silent = "sentinel-lost"
	}
	dgrams := log.dgrams[:before]
	var t1 time.Time
	if len(log.times) > 0 {
		t1 = log.times[0]
	}
	arrMs := make([]int, 0, before)
	for _, at := range log.times[:before] {
		arrMs = append(arrMs, int(at.Sub(start)/time.Millisecond))
	}
	log.mu.Unlock()
	obs.arr = "-"
	if len(arrMs) > 0 {
		parts := make([]string, len(arrMs))
		for i, a := range arrMs {
			parts[i] = itoa(a)
		}
		obs.arr = strings.Join(parts, ",")
	}
	obs.timedBad = c08TimedBad(arrMs, endMs, obs.retryMs, obs.t0Ms)

	if len(dgrams) > 0 {
		obs.first = hx(dgrams[0])
	}
	same := true
	for _, d := range dgrams {
		if !bytes.Equal(d, dgrams[0]) {
			same = false
		}
	}
	obs.verbatim = boolStr(same)
	extra := len(dgrams) - 1
	if extra < 0 {
		extra = 0
	}
	switch {
	case sc.retry <= 0:
		if extra == 0 {
			obs.resends = "ok"
		} else {
			obs.resends = "unexpected:" + itoa(extra)
		}
	default:
		// upper bound from the longest possible sending period, lower bound from the shortest
		long := r.at.Sub(start)
		upper := 0
		if 2*long >= sc.retry {
			upper = int(long/sc.retry) + 2
		}
		lower := 0
		if !t1.IsZero() {
			lower = int(r.at.Sub(t1)/sc.retry)/3 - 2
		}
		switch {
		case extra > upper:
			obs.resends = "toomany"
		case extra < lower:
			obs.resends = "toofew"
		default:
			obs.resends = "ok"
		}
	}
	if os.Getenv("VH_TRACE") != "" {
		os.Stderr.WriteString("c08 trace: " + sc.peer + " " + sc.cancel + " retry=" + sc.retry.String() + " datagrams=" + itoa(len(dgrams)) +
			" elapsed=" + r.at.Sub(start).String() + " sinceCancel=" + r.at.Sub(ct).String() + " " + obs.String() + "\n")
	}
	return obs
}

// c08Watchdog: how long a scenario may take before the call counts as not returning
func c08Watchdog(sc *c08scenario) time.Duration {
	w := 2500*time.Millisecond + sc.delay
	if sc.retry > 0 && sc.retry <= time.Second {
		w += time.Duration(sc.k+sc.j+1) * sc.retry
	}
	return w
}

func parseC08(args []string) *c08scenario {
	// (the 13th field, the flavour of the context, is optional: case lines written before it existed have 12)
	if len(args) != 12 && len(args) != 13 {
		panic(badCase("bad scenario arity"))
	}
	sc := &c08scenario{}
	if len(args) == 13 {
		switch args[12] {
		case "std":
		case "wrap":
			sc.wrap = true
		case "cause":
			sc.cause = true
		default:
			panic(badCase("bad context flavour"))
		}
	}
	sc.req = &radius.Packet{Code: radius.Code(atoi(args[0])), Identifier: byte(atoi(args[1])), Secret: unhx(args[3])}
	a := unhx(args[2])
	if len(a) != 16 || atoi(args[1]) < 0 || atoi(args[1]) > 255 {
		panic(badCase("bad packet fields"))
	}
	copy(sc.req.Authenticator[:], a)
	sc.req.Attributes = toAttributes(parseAVPs(args[4]))
	ms := atoi(args[5])
	sc.retry = time.Duration(ms) * time.Millisecond
	sc.maxErr = atoi(args[6])
	sc.skip = atoi(args[7]) != 0
	pf := strings.Split(args[8], ":")
	sc.peer = pf[0]
	switch {
	case sc.peer == "late" && len(pf) == 4:
		sc.k, sc.g, sc.m = atoi(pf[1]), atoi(pf[2]), atoi(pf[3])
	case sc.peer == "nodial" && len(pf) == 2:
		sc.variant = atoi(pf[1])
		if sc.variant < 0 || sc.variant >= len(c08Nodial) {
			panic(badCase("bad peer"))
		}
	case (sc.peer == "silent" || sc.peer == "usilent" || sc.peer == "closed" || sc.peer == "flood" || sc.peer == "vanish" || sc.peer == "deaf") && len(pf) == 1:
	default:
		panic(badCase("bad peer"))
	}
	cf := strings.Split(args[9], ":")
	sc.cancel = cf[0]
	switch {
	case sc.cancel == "at" && len(cf) == 3:
		sc.j = atoi(cf[1])
		sc.delay = time.Duration(atoi(cf[2])) * time.Millisecond
	case sc.cancel == "deadline" && len(cf) == 2:
		sc.delay = time.Duration(atoi(cf[1])) * time.Millisecond
	case (sc.cancel == "never" || sc.cancel == "pre" || sc.cancel == "predeadline") && len(cf) == 1:
	default:
		panic(badCase("bad cancel"))
	}
	if sc.k < 0 || sc.g < 0 || sc.m < 0 || sc.k > 8 || sc.g > 64 || sc.m > 64 || sc.j < 0 || sc.j > 8 || sc.delay < 0 || sc.delay > 2*time.Second {
		panic(badCase("bad scenario numbers"))
	}
	sc.reply, sc.garbage = unhx(args[10]), unhx(args[11])
	return sc
}

// c08Ends: the scenario has something that ends it (mirrors the domain of the Lean driver's
// scenarioEvents; anything else would only run into the watchdog).
func c08Ends(sc *c08scenario) bool {
	ticking := sc.retry > 0 && sc.retry <= time.Second
	if _, err := sc.req.Encode(); err != nil {
		return true
	}
	if sc.cancel == "at" && (sc.j < 1 || (sc.j > 1 && !ticking)) {
		return false
	}
	switch sc.cancel {
	case "pre", "predeadline", "deadline":
		if sc.cancel == "deadline" && sc.peer == "late" && sc.k > 0 && ticking {
			return false
		}
		if sc.cancel == "deadline" && sc.peer == "nodial" && sc.delay < time.Second {
			return false // the dial fails at once; a deadline that close would race with it
		}
		return true
	}
	switch sc.peer {
	case "nodial":
		return sc.cancel == "never" // no datagram ever reaches a peer: there is no "after the j-th"
	case "vanish", "deaf":
		return sc.cancel == "at" && sc.j == 1 // the peer takes one datagram and is gone (deaf: it is gone from the start)
	case "closed":
		return true
	case "silent", "usilent":
		return sc.cancel == "at" && (sc.j <= 1 || ticking)
	case "flood":
		return sc.cancel == "at" && sc.j <= 1 || (sc.cancel == "never" && sc.maxErr > 0)
	case "late":
		if sc.k == 0 {
			return true
		}
		if sc.cancel == "never" {
			return ticking
		}
		if !ticking {
			return sc.j <= 1
		}
		return sc.k >= sc.j+2
	}
	return false
}

func evalC08(op string, args []string) string {
	if op != "scenario" {
		return "UNKNOWN-OP"
	}
	sc := parseC08(args)
	if !c08Ends(sc) {
		return "BAD-CASE"
	}
	var o c08obs
	for attempt := 0; attempt < 3; attempt++ {
		o = runC08(sc)
		if o.timingOK() {
			break
		}
		time.Sleep(50 * time.Millisecond)
	}
	if o.stale {
		// three runs, and in each half of the time budget was gone before the call could begin: the machine, not
		// the library, was observed
		return "INCONCLUSIVE deadline-spent-before-the-call-began"
	}
	return o.String()
}

// ---- generation ----

func genC08(g *Gen, tier string, emit func(op string, args ...string)) {
	rounds := 6
	if tier == "thorough" {
		rounds = 16
	}
	retries := []int{-1, 0, 5, 20, 3600000}
	budgets := []int{0, 1, 3, -1, 10}
	reqCodes := []int{1, 4, 12, 40, 43}
	n := 0
	one := func(retry, maxErr int, peer, cancel string, opts ...string) {
		n++
		reqCode := reqCodes[n%len(reqCodes)]
		for _, o := range opts {
			if o == "badcode" {
				reqCode = 99
			}
		}
		secret := g.RandBytes(g.Range(1, 16))
		var reqAttrs []avp
		for k := g.Pick(0, 1, 2); k > 0; k-- {
			reqAttrs = append(reqAttrs, avp{g.Pick(1, 2, 4, 32), g.Bytes(g.Pick(0, 2, 6, 16))})
		}
		req := &radius.Packet{Code: radius.Code(reqCode), Identifier: byte(g.U64()), Secret: secret}
		auth := g.RandBytes(16)
		copy(req.Authenticator[:], auth)
		req.Attributes = toAttributes(reqAttrs)
		reply, garbage := []byte{1}, g.RandBytes(g.Pick(0, 1, 10, 19, 30))
		skip := false
		if wire, err := req.Encode(); err == nil {
			codes := replyCodesFor[reqCode]
			reply = replyDatagram(wire, secret, codes[g.Intn(len(codes))], g.replyAttrs(0))
			if g.Chance(1, 8) {
				// the largest legal reply: exactly 4096 octets, the size of the client's receive buffer
				if w := g.c05Datagram(13, 0, wire, secret, reqCode, nil); len(w) >= 4096 {
					reply = w[:4096]
				}
			}
			if g.Chance(1, 2) {
				// garbage that parses but does not verify: a reply made with another secret
				garbage = replyDatagram(wire, secret, codes[g.Intn(len(codes))], g.replyAttrs(1))
				signReply(garbage, wire[4:20], append(append([]byte{}, secret...), 'x'))
				skip = g.Chance(1, 6)
			}
		}
		// the flavour of the context: half of the scenarios hand Exchange a user-defined context type
		flavour := g.pickStr("std", "wrap", "std", "wrap", "cause")
		for _, o := range opts {
			if o == "std" || o == "wrap" || o == "cause" {
				flavour = o
			}
		}
		emit("scenario", itoa(reqCode), itoa(int(req.Identifier)), hx(auth), hx(secret), showAVPs(reqAttrs),
			itoa(retry), itoa(maxErr), map[bool]string{false: "0", true: "1"}[skip], peer, cancel, hx(reply), hx(garbage), flavour)
	}
	// an address that cannot be dialled: the dial error (or the context's, if it was done already) comes back, nothing
	// is sent, nothing is left - every undialable address under both context flavours, live and done contexts
	for round := 0; round < (rounds+2)/3; round++ {
		for v := range c08Nodial {
			for _, fl := range []string{"wrap", "std", "cause"} {
				retry := retries[(round+v)%len(retries)]
				one(retry, budgets[(round+v)%len(budgets)], "nodial:"+itoa(v), g.pickStr("never", "never", "deadline:"+itoa(g.Pick(1000, 1500, 2000))), fl)
				if (round+v)%2 == 0 == (fl == "wrap") {
					one(retry, 0, "nodial:"+itoa(v), g.pickStr("pre", "predeadline"), fl)
				}
			}
		}
	}
	one(20, 0, "nodial:0", "never", "badcode")
	// retransmissions that FAIL while the Read stays pending (unixgram peer that is closed and unlinked after the first
	// datagram): only the context ends the call, and it must, several failed retransmissions later
	for round := 0; round < rounds; round++ {
		retry := g.Pick(5, 8, 12, 20)
		one(retry, budgets[round%len(budgets)], "deaf", "at:1:"+itoa(3*retry+g.Pick(25, 40, 70)))
		one(retry, budgets[(round+1)%len(budgets)], "deaf", "deadline:"+itoa(4*retry+g.Pick(40, 60, 90)))
		one(retry, budgets[round%len(budgets)], "vanish", "at:1:"+itoa(3*retry+g.Pick(25, 40, 70)))
		one(retry, budgets[(round+1)%len(budgets)], "vanish", "deadline:"+itoa(4*retry+g.Pick(40, 60, 90)))
		if round%3 == 0 {
			// no retransmissions at all / a cancellation before the first one
			one(g.Pick(-1, 0, 3600000), 0, "vanish", "at:1:"+itoa(g.Pick(0, 30)))
			one(20, 0, "vanish", g.pickStr("pre", "predeadline", "at:1:0"))
		}
	}
	// long waits with Retry <= 0: a fallback ticker of up to a second would show
	for i := 0; i < rounds/3; i++ {
		one(-(i % 2), 0, "silent", "at:1:"+itoa(g.Pick(1150, 1300)))
		one(-((i + 1) % 2), 0, "late:1:0:0", "deadline:"+itoa(g.Pick(1100, 1250)))
	}
	for round := 0; round < rounds; round++ {
		for ri, retry := range retries {
			ticking := retry > 0 && retry <= 1000
			me := budgets[(ri+round)%len(budgets)]
			// already-cancelled context / expired deadline: nothing is dialled
			one(retry, me, g.pickStr("silent", "closed", "late:0:0:0"), g.pickStr("pre", "predeadline"))
			// closed port: ICMP turns the first write into a read error
			one(retry, me, "closed", "never")
			// silent peer, cancelled or timed out while waiting
			one(retry, me, "silent", "at:1:"+itoa(g.Pick(0, 15, 40, 120)))
			one(retry, me, "silent", "deadline:"+itoa(g.Pick(20, 60, 110)))
			if retry > 0 && retry <= 20 {
				// long enough for a dozen intervals: one datagram in all that time is not "at the configured interval"
				one(retry, me, "usilent", "deadline:"+itoa(18*retry))
				one(retry, me, "silent", "deadline:"+itoa(18*retry))
			}
			if ticking {
				one(retry, me, "silent", "at:"+itoa(g.Pick(2, 3, 4))+":"+itoa(g.Pick(0, 7)))
			}
			// reply at once, preceded by garbage and followed by more datagrams
			one(retry, budgets[g.Intn(len(budgets))], "late:0:"+itoa(g.Pick(0, 0, 1, 2, 4))+":"+itoa(g.Pick(0, 2, 5)), g.pickStr("never", "never", "at:1:60", "deadline:300"))
			if ticking {
				// reply only after k retransmissions
				one(retry, budgets[g.Intn(len(budgets))], "late:"+itoa(g.Pick(1, 2, 3))+":"+itoa(g.Pick(0, 1, 3))+":"+itoa(g.Pick(0, 2)), "never")
				// cancelled before the peer would have answered
				j := g.Pick(1, 2)
				one(retry, me, "late:"+itoa(j+2+g.Intn(2))+":0:0", "at:"+itoa(j)+":"+itoa(g.Pick(0, 3)))
			} else {
				// the peer waits for a retransmission that never comes
				one(retry, me, "late:"+itoa(g.Pick(1, 2))+":0:0", g.pickStr("at:1:50", "deadline:80"))
			}
			// flood of garbage: the budget ends the call, or (no budget) the cancellation between two datagrams
			one(retry, g.Pick(1, 3, 10), "flood", "never")
			one(retry, g.Pick(0, -1), "flood", g.pickStr("at:1:30", "at:1:80", "deadline:50"))
			// a request Encode refuses: returns before dialling
			if round%2 == 0 && ri%2 == 0 {
				one(retry, me, g.pickStr("silent", "closed"), "never", "badcode")
			}
		}
	}
}

func (g *Gen) pickStr(xs ...string) string { return xs[g.Intn(len(xs))] }
