package main

// C16 — dictionary language: grammar-derived texts ("rendered"), single-fault mutations ("fault")
// and arbitrary texts ("parse") run through the real dictionary.Parser.
//
// This file also holds what C15 (c15.go) shares with it: the in-memory Opener, the canonical
// syntax of a parsed dictionary / of a failure, and the generator of abstract dictionaries and
// layouts.  Everything here is prefixed dp… (dictionary parser).

import (
	"bufio"
	"bytes"
	"errors"
	"strconv"
	"strings"

	"layeh.com/radius/dictionary"
)

func init() {
	props["C16"] = &prop{gen: genC16, eval: evalC16, par: func(string) bool { return true }}
}

// ---------------------------------------------------------------------------------------------
// in-memory Opener

type memOpenError struct{ name string }

func (e *memOpenError) Error() string { return "mem: no such file " + strconv.Quote(e.name) }

var errDpDepth = errors.New("mem: too many files open (include depth cap)")

// dpDepthCap bounds the number of simultaneously open files: the unbounded recursion of an include
// cycle becomes the observation `exceeded` instead of a fatal stack overflow.
const dpDepthCap = 200

type dpOpener struct {
	files    map[string][]byte
	events   []string // o<namehex> per successful open, c<namehex> per Close call
	nopen    int      // handles opened and not yet closed once
	exceeded bool
}

func newDpOpener() *dpOpener { return &dpOpener{files: map[string][]byte{}} }

// add registers a file; the first registration of a name wins.
func (o *dpOpener) add(name string, data []byte) {
	if _, dup := o.files[name]; !dup {
		o.files[name] = data
	}
}

func (o *dpOpener) OpenFile(name string) (dictionary.File, error) {
	data, ok := o.files[name]
	if !ok {
		return nil, &memOpenError{name}
	}
	// (also: a walk that has opened twenty thousand files is not going to end by itself)
	if o.nopen >= dpDepthCap || len(o.events) > 20000 {
		o.exceeded = true
		return nil, errDpDepth
	}
	o.nopen++
	o.events = append(o.events, "o"+hx([]byte(name)))
	return &dpFile{op: o, name: name, r: bytes.NewReader(data)}, nil
}

// handle makes a File that was not obtained through OpenFile (the argument of Parser.Parse).
func (o *dpOpener) handle(name string, data []byte) *dpFile {
	o.nopen++
	return &dpFile{op: o, name: name, r: bytes.NewReader(data)}
}

func (o *dpOpener) trace() string {
	if len(o.events) == 0 {
		return "-"
	}
	return strings.Join(o.events, ",")
}

type dpFile struct {
	op     *dpOpener
	name   string
	r      *bytes.Reader // Read: data first, then (0, io.EOF) on a separate call
	closed bool
}

func (f *dpFile) Read(p []byte) (int, error) { return f.r.Read(p) }
func (f *dpFile) Name() string               { return f.name }
func (f *dpFile) Close() error {
	f.op.events = append(f.op.events, "c"+hx([]byte(f.name)))
	if !f.closed {
		f.closed = true
		f.op.nopen--
	}
	return nil
}

// ---------------------------------------------------------------------------------------------
// canonical syntax of results

func dpIntFlag(f dictionary.IntFlag) string {
	if !f.Valid {
		return "_"
	}
	return strconv.Itoa(f.Int)
}

func dpBoolFlag(f dictionary.BoolFlag) string {
	switch {
	case !f.Valid:
		return "_"
	case f.Bool:
		return "T"
	}
	return "F"
}

func dpIntPtr(p *int) string {
	if p == nil {
		return "_"
	}
	return strconv.Itoa(*p)
}

func dpShowAttr(a *dictionary.Attribute) string {
	oid := make([]string, len(a.OID))
	for i, c := range a.OID {
		oid[i] = strconv.Itoa(c)
	}
	return hx([]byte(a.Name)) + "/" + strings.Join(oid, ".") + "/" + strconv.Itoa(int(a.Type)) + "/" +
		dpIntFlag(a.Size) + "/" + dpIntFlag(a.FlagEncrypt) + "/" + dpBoolFlag(a.FlagHasTag) + "/" + dpBoolFlag(a.FlagConcat)
}

func dpShowAttrs(as []*dictionary.Attribute) string {
	parts := make([]string, len(as))
	for i, a := range as {
		parts[i] = dpShowAttr(a)
	}
	return dpJoinOr(",", parts)
}

func dpShowValues(vs []*dictionary.Value) string {
	parts := make([]string, len(vs))
	for i, v := range vs {
		parts[i] = hx([]byte(v.Attribute)) + "/" + hx([]byte(v.Name)) + "/" + strconv.FormatUint(v.Number, 10)
	}
	return dpJoinOr(",", parts)
}

func dpJoinOr(sep string, parts []string) string {
	if len(parts) == 0 {
		return "-"
	}
	return strings.Join(parts, sep)
}

func dpShowDict(d *dictionary.Dictionary) string {
	vs := make([]string, len(d.Vendors))
	for i, v := range d.Vendors {
		vs[i] = hx([]byte(v.Name)) + "/" + strconv.Itoa(v.Number) + "/" + dpIntPtr(v.TypeOctets) + "/" + dpIntPtr(v.LengthOctets) +
			"{" + dpShowAttrs(v.Attributes) + "}{" + dpShowValues(v.Values) + "}"
	}
	return dpShowAttrs(d.Attributes) + "~" + dpShowValues(d.Values) + "~" + dpJoinOr("|", vs)
}

var dpClasses = []string{"UnknownLine", "InvalidOID", "UnknownAttributeType", "DuplicateAttributeFlag", "UnknownAttributeFlag",
	"InvalidAttributeEncryptType", "DuplicateAttribute", "Strconv", "InvalidVendorFormat", "DuplicateVendor", "NestedVendorBlock",
	"UnknownVendor", "UnmatchedEndVendor", "InvalidEndVendor", "BeginVendorInclude", "UnclosedVendorBlock", "RecursiveInclude",
	"Open", "Other", "Scanner", "RootOpen"}

func dpKnownClass(s string) bool {
	for _, c := range dpClasses {
		if c == s {
			return true
		}
	}
	return false
}

// dpFailure describes an error returned by Parse/ParseFile: class, file name (of a ParseError),
// line and detail (the included name for RecursiveInclude / Open).
type dpFailure struct {
	class     string
	hasFile   bool
	file      string
	line      int
	hasDetail bool
	detail    string
}

func dpClassify(err error) dpFailure {
	// whoever receives the error prints it: rendering must work (a ParseError without its File would not)
	_ = err.Error()
	var rie *dictionary.RecursiveIncludeError
	errors.As(err, &rie)
	pe, ok := err.(*dictionary.ParseError)
	if !ok || pe == nil {
		var moe *memOpenError
		switch {
		case errors.Is(err, bufio.ErrTooLong):
			return dpFailure{class: "Scanner"}
		case errors.As(err, &moe):
			return dpFailure{class: "RootOpen"}
		}
		return dpFailure{class: "Other"}
	}
	f := dpFailure{class: "Other", line: pe.Line}
	if pe.File != nil {
		f.hasFile, f.file = true, pe.File.Name()
	}
	switch in := pe.Inner.(type) {
	case *dictionary.UnknownLineError:
		f.class = "UnknownLine"
	case *dictionary.InvalidOIDError:
		f.class = "InvalidOID"
	case *dictionary.UnknownAttributeTypeError:
		f.class = "UnknownAttributeType"
	case *dictionary.DuplicateAttributeFlagError:
		f.class = "DuplicateAttributeFlag"
	case *dictionary.UnknownAttributeFlagError:
		f.class = "UnknownAttributeFlag"
	case *dictionary.InvalidAttributeEncryptTypeError:
		f.class = "InvalidAttributeEncryptType"
	case *dictionary.DuplicateAttributeError:
		f.class = "DuplicateAttribute"
	case *strconv.NumError:
		f.class = "Strconv"
	case *dictionary.InvalidVendorFormatError:
		f.class = "InvalidVendorFormat"
	case *dictionary.DuplicateVendorError:
		f.class = "DuplicateVendor"
	case *dictionary.NestedVendorBlockError:
		f.class = "NestedVendorBlock"
	case *dictionary.UnknownVendorError:
		f.class = "UnknownVendor"
	case *dictionary.UnmatchedEndVendorError:
		f.class = "UnmatchedEndVendor"
	case *dictionary.InvalidEndVendorError:
		f.class = "InvalidEndVendor"
	case *dictionary.BeginVendorIncludeError:
		f.class = "BeginVendorInclude"
	case *dictionary.UnclosedVendorBlockError:
		f.class = "UnclosedVendorBlock"
	case *dictionary.RecursiveIncludeError:
		f.class = "RecursiveInclude"
		f.hasDetail, f.detail = true, in.Filename
	case *memOpenError:
		f.class = "Open"
		f.hasDetail, f.detail = true, in.name
	}
	return f
}

// ---- validation of the expectation arguments (they are read by the Lean oracle only) ----

func dpIsHexField(s string) bool {
	if s == "-" {
		return true
	}
	if len(s) == 0 || len(s)%2 != 0 {
		return false
	}
	for i := 0; i < len(s); i++ {
		c := s[i]
		if !(c >= '0' && c <= '9' || c >= 'a' && c <= 'f') {
			return false
		}
	}
	return true
}

func dpIsInt(s string) bool {
	_, err := strconv.ParseInt(s, 10, 64)
	return err == nil && s[0] != '+'
}

func dpIsOptInt(s string) bool { return s == "_" || dpIsInt(s) }

func dpIsOptBool(s string) bool { return s == "_" || s == "T" || s == "F" }

func dpValidAttrs(s string) bool {
	if s == "-" {
		return true
	}
	for _, a := range strings.Split(s, ",") {
		f := strings.Split(a, "/")
		if len(f) != 7 || !dpIsHexField(f[0]) || !dpIsInt(f[2]) || !dpIsOptInt(f[3]) || !dpIsOptInt(f[4]) || !dpIsOptBool(f[5]) || !dpIsOptBool(f[6]) {
			return false
		}
		for _, c := range strings.Split(f[1], ".") {
			if !dpIsInt(c) {
				return false
			}
		}
	}
	return true
}

func dpValidValues(s string) bool {
	if s == "-" {
		return true
	}
	for _, v := range strings.Split(s, ",") {
		f := strings.Split(v, "/")
		if len(f) != 3 || !dpIsHexField(f[0]) || !dpIsHexField(f[1]) {
			return false
		}
		if _, err := strconv.ParseUint(f[2], 10, 64); err != nil || f[2][0] == '+' {
			return false
		}
	}
	return true
}

func dpValidDict(s string) bool {
	p := strings.Split(s, "~")
	if len(p) != 3 || !dpValidAttrs(p[0]) || !dpValidValues(p[1]) {
		return false
	}
	if p[2] == "-" {
		return true
	}
	for _, v := range strings.Split(p[2], "|") {
		i := strings.IndexByte(v, '{')
		if i < 0 || !strings.HasSuffix(v, "}") {
			return false
		}
		h := strings.Split(v[:i], "/")
		if len(h) != 4 || !dpIsHexField(h[0]) || !dpIsInt(h[1]) || !dpIsOptInt(h[2]) || !dpIsOptInt(h[3]) {
			return false
		}
		body := strings.Split(v[i+1:len(v)-1], "}{")
		if len(body) != 2 || !dpValidAttrs(body[0]) || !dpValidValues(body[1]) {
			return false
		}
	}
	return true
}

// ---------------------------------------------------------------------------------------------
// evaluation

func evalC16(op string, args []string) string {
	want := 0
	switch op {
	case "parse":
		want = 2
	case "rendered":
		want = 3
	case "fault":
		want = 4
	default:
		return "UNKNOWN-OP"
	}
	if len(args) != want {
		return "BAD-CASE"
	}
	text := unhx(args[0])
	if args[1] != "0" && args[1] != "1" {
		return "BAD-CASE"
	}
	switch op {
	case "rendered":
		if !dpValidDict(args[2]) {
			return "BAD-CASE"
		}
	case "fault":
		if !dpKnownClass(args[2]) || atoi(args[3]) < 0 {
			return "BAD-CASE"
		}
	}
	o := newDpOpener()
	p := dictionary.Parser{Opener: o, IgnoreIdenticalAttributes: args[1] == "1"}
	// history: the same Parser value has parsed other texts before (one accepted, one refused, and — for
	// every second case — this very text); a Parser carries configuration only
	func() {
		defer func() { recover() }()
		p.Parse(o.handle("prior1", []byte("ATTRIBUTE Prior-A 1 string\nATTRIBUTE Prior-B 2 octets[4] encrypt=1\nATTRIBUTE Prior-C 3 integer has_tag\nVALUE Prior-C One 1\nVENDOR PriorV 77 format=2,1\nBEGIN-VENDOR PriorV\nATTRIBUTE Prior-D 1 ipaddr\nEND-VENDOR PriorV\n")))
		p.Parse(o.handle("prior2", []byte("VENDOR PriorW 78\nBEGIN-VENDOR PriorW\nATTRIBUTE Prior-E 1 date\nATTRIBUTE Prior-E 2 date\n")))
		if len(text)%2 == 0 {
			p.Parse(o.handle("root", text))
		}
	}()
	o.events = nil
	d, err := p.Parse(o.handle("root", text))
	if len(text)%4 == 1 {
		// … and concurrently: three goroutines parse other texts through the same Parser value while a fourth
		// parses this one again; it must read what the sequential parse read
		render := func(d *dictionary.Dictionary, err error) string {
			if err != nil {
				f := dpClassify(err)
				return "err " + f.class + " " + itoa(f.line)
			}
			if d == nil {
				return "err Other 0"
			}
			return "ok " + dpShowDict(d)
		}
		want := render(d, err)
		others := [][]byte{
			[]byte("ATTRIBUTE Conc-A 1 string\nATTRIBUTE Conc-B 2 octets[4] encrypt=1\nVENDOR ConcV 77 format=2,1\nBEGIN-VENDOR ConcV\nATTRIBUTE Conc-D 1 ipaddr\nEND-VENDOR ConcV\n"),
			[]byte("VALUE Nope x 1\n"),
			[]byte("ATTRIBUTE Conc-E 9 integer has_tag\nVALUE Conc-E One 1\nVALUE Conc-E Two 0x2\n"),
		}
		got := make(chan string, 1)
		done := make(chan struct{}, len(others))
		start := make(chan struct{})
		for _, t := range others {
			t := t
			oo := newDpOpener()
			go func() {
				defer func() { recover(); done <- struct{}{} }()
				<-start
				for k := 0; k < 20; k++ {
					pp := p // (a copy of the struct shares whatever the fields point to; use the value itself)
					_ = pp
					p.Parse(oo.handle("other", t))
				}
			}()
		}
		o2 := newDpOpener()
		go func() {
			defer func() {
				if recover() != nil {
					got <- "PANIC"
				}
			}()
			<-start
			r := ""
			for k := 0; k < 20; k++ {
				r = render(p.Parse(o2.handle("root", text)))
				if r != want {
					break
				}
			}
			got <- r
		}()
		close(start)
		r := <-got
		for range others {
			<-done
		}
		if r != want {
			return "concurrent-parse-differs sequential: " + want + " concurrent: " + r
		}
	}
	if err != nil {
		f := dpClassify(err)
		return "err " + f.class + " " + itoa(f.line)
	}
	if d == nil {
		return "err Other 0"
	}
	return "ok " + dpShowDict(d)
}

// ---------------------------------------------------------------------------------------------
// abstract dictionaries

var dpTypeNames = []string{"string", "octets", "ipaddr", "date", "integer", "ipv6addr", "ipv6prefix", "ifid", "integer64",
	"vsa", "ether", "abinary", "byte", "short", "signed", "tlv", "ipv4prefix"}

type dpAttr struct {
	name        string
	oid         []uint64 // each <= MaxInt64
	typ         int      // 1..17
	hasSize     bool
	size        int64
	hasEnc      bool
	enc         int64
	tag, concat bool
}

func dpOpt(has bool, v int64) string {
	if !has {
		return "_"
	}
	return strconv.FormatInt(v, 10)
}

func dpFlagT(b bool) string {
	if b {
		return "T"
	}
	return "_"
}

func (a *dpAttr) canon() string {
	oid := make([]string, len(a.oid))
	for i, c := range a.oid {
		oid[i] = strconv.FormatUint(c, 10)
	}
	return hx([]byte(a.name)) + "/" + strings.Join(oid, ".") + "/" + itoa(a.typ) + "/" + dpOpt(a.hasSize, a.size) + "/" +
		dpOpt(a.hasEnc, a.enc) + "/" + dpFlagT(a.tag) + "/" + dpFlagT(a.concat)
}

type dpValue struct {
	attr, name string
	num        uint64
}

func (v *dpValue) canon() string {
	return hx([]byte(v.attr)) + "/" + hx([]byte(v.name)) + "/" + strconv.FormatUint(v.num, 10)
}

type dpVendor struct {
	name   string
	num    int64
	hasFmt bool
	t, l   int
}

const (
	dkAttr = iota
	dkValue
	dkVendor
	dkBegin
	dkEnd
	dkInclude
)

// dpDecl is one declaration line of the abstract dictionary.
type dpDecl struct {
	kind    int
	attr    *dpAttr
	val     *dpValue
	ven     *dpVendor // VENDOR / BEGIN-VENDOR / END-VENDOR
	inc     string    // $INCLUDE target (C15 only)
	ignored bool      // an identical repeat that IgnoreIdenticalAttributes must drop
}

// dpExpect is the dictionary a declaration sequence denotes, in the canonical syntax.  It is
// computed from the abstract declarations only (the parser is not consulted).
func dpExpect(decls []*dpDecl) string {
	type acc struct {
		v             *dpVendor
		attrs, values []string
	}
	var attrs, values []string
	var vens []*acc
	byVen := map[*dpVendor]*acc{}
	var cur *acc
	for _, d := range decls {
		if d.ignored {
			continue
		}
		switch d.kind {
		case dkAttr:
			if cur != nil {
				cur.attrs = append(cur.attrs, d.attr.canon())
			} else {
				attrs = append(attrs, d.attr.canon())
			}
		case dkValue:
			if cur != nil {
				cur.values = append(cur.values, d.val.canon())
			} else {
				values = append(values, d.val.canon())
			}
		case dkVendor:
			a := &acc{v: d.ven}
			vens = append(vens, a)
			byVen[d.ven] = a
		case dkBegin:
			cur = byVen[d.ven]
		case dkEnd:
			cur = nil
		}
	}
	vs := make([]string, len(vens))
	for i, a := range vens {
		t, l := "_", "_"
		if a.v.hasFmt {
			t, l = itoa(a.v.t), itoa(a.v.l)
		}
		vs[i] = hx([]byte(a.v.name)) + "/" + strconv.FormatInt(a.v.num, 10) + "/" + t + "/" + l +
			"{" + dpJoinOr(",", a.attrs) + "}{" + dpJoinOr(",", a.values) + "}"
	}
	return dpJoinOr(",", attrs) + "~" + dpJoinOr(",", values) + "~" + dpJoinOr("|", vs)
}

// ---- random pieces ----

const dpNameAlphabet = "ABCDEFGHIJKLMNOPQRSTUVWXYZabcdefghijklmnopqrstuvwxyz0123456789_-./"

// dpToken is a name: 1..12 bytes of the name alphabet; sometimes with bytes >= 0x80 that cannot
// start a Unicode white-space character (never C2, C5, E1, E2, E3).
func (g *Gen) dpToken() string {
	n := g.Pick(1, 2, 3, 4, 5, 6, 6, 7, 8, 8, 9, 10, 11, 12)
	b := make([]byte, n)
	for i := range b {
		b[i] = dpNameAlphabet[g.Intn(len(dpNameAlphabet))]
	}
	if g.Chance(1, 10) {
		for k := g.Range(1, 3); k > 0; k-- {
			c := byte(0x80 + g.Intn(0x80))
			for c == 0xC2 || c == 0xC5 || c == 0xE1 || c == 0xE2 || c == 0xE3 {
				c = byte(0x80 + g.Intn(0x80))
			}
			b[g.Intn(n)] = c
		}
	}
	return string(b)
}

func (g *Gen) dpZeros() string {
	if g.Chance(1, 8) {
		return strings.Repeat("0", g.Range(1, 3))
	}
	return ""
}

// dpSignedText writes v the way strconv.ParseInt(·, 10, ·) reads it: optional sign, leading zeros.
func (g *Gen) dpSignedText(v int64) string {
	sign := ""
	var mag uint64
	if v < 0 {
		sign = "-"
		mag = uint64(-(v + 1)) + 1
	} else {
		mag = uint64(v)
		if g.Chance(1, 10) {
			sign = "+"
		} else if v == 0 && g.Chance(1, 10) {
			sign = "-"
		}
	}
	return sign + g.dpZeros() + strconv.FormatUint(mag, 10)
}

func (g *Gen) dpCaseMix(s string) string {
	switch g.Intn(10) {
	case 0, 1, 2, 3:
		return s
	case 4:
		return strings.ToUpper(s)
	}
	b := []byte(s)
	for i, c := range b {
		if c >= 'a' && c <= 'z' && g.Bool() {
			b[i] = c - 32
		}
	}
	return string(b)
}

func (g *Gen) dpOidComp() uint64 {
	if g.Chance(4, 5) {
		return uint64(g.Range(1, 255))
	}
	return []uint64{0, 256, 65535, 2147483647, 4294967296, 9223372036854775807}[g.Intn(6)]
}

func (g *Gen) dpU32() uint64 {
	switch g.Intn(5) {
	case 0, 1:
		return uint64(g.Intn(301))
	case 2:
		return []uint64{0, 1, 255, 256, 65535, 65536, 2147483647, 2147483648, 4294967294, 4294967295}[g.Intn(10)]
	}
	return g.U64() & 0xffffffff
}

func (g *Gen) dpU32Text(v uint64) string {
	if g.Chance(3, 5) {
		return g.dpZeros() + strconv.FormatUint(v, 10)
	}
	b := []byte(strconv.FormatUint(v, 16))
	for i, c := range b {
		if c >= 'a' && c <= 'f' && g.Bool() {
			b[i] = c - 32
		}
	}
	return "0x" + g.dpZeros() + string(b)
}

func (g *Gen) dpAttrBody(name string) *dpAttr {
	a := &dpAttr{name: name}
	for k := g.Pick(1, 1, 1, 2, 2, 3); k > 0; k-- {
		a.oid = append(a.oid, g.dpOidComp())
	}
	if g.Chance(1, 4) {
		a.typ, a.hasSize = 2, true
		if g.Chance(3, 4) {
			a.size = int64(g.Range(1, 253))
		} else {
			a.size = []int64{0, 2147483647, -1, -2147483648, 5, 7}[g.Intn(6)]
		}
	} else {
		a.typ = g.Range(1, 17)
	}
	a.tag, a.concat = g.Chance(1, 3), g.Chance(1, 3)
	if g.Chance(1, 3) {
		a.hasEnc = true
		if g.Chance(3, 4) {
			a.enc = int64(g.Range(1, 3))
		} else {
			a.enc = []int64{0, -1, 2147483647, 2}[g.Intn(4)]
		}
	}
	return a
}

func (g *Gen) dpOidText(oid []uint64) string {
	parts := make([]string, len(oid))
	for i, c := range oid {
		parts[i] = g.dpZeros() + strconv.FormatUint(c, 10)
	}
	return strings.Join(parts, ".")
}

func (g *Gen) dpTypeText(a *dpAttr) string {
	if a.hasSize {
		return g.dpCaseMix("octets") + "[" + g.dpSignedText(a.size) + "]"
	}
	return g.dpCaseMix(dpTypeNames[a.typ-1])
}

// dpAttrFields writes an attribute as the fields of an ATTRIBUTE line (random spelling).
func (g *Gen) dpAttrFields(a *dpAttr) []string {
	f := []string{"ATTRIBUTE", a.name, g.dpOidText(a.oid), g.dpTypeText(a)}
	var flags []string
	if a.tag {
		flags = append(flags, "has_tag")
	}
	if a.concat {
		flags = append(flags, "concat")
	}
	if a.hasEnc {
		flags = append(flags, "encrypt="+g.dpSignedText(a.enc))
	}
	for i := len(flags) - 1; i > 0; i-- {
		j := g.Intn(i + 1)
		flags[i], flags[j] = flags[j], flags[i]
	}
	if len(flags) > 0 {
		f = append(f, strings.Join(flags, ","))
	}
	return f
}

func (g *Gen) dpVendorFields(v *dpVendor) []string {
	f := []string{"VENDOR", v.name, g.dpSignedText(v.num)}
	if v.hasFmt {
		f = append(f, "format="+itoa(v.t)+","+itoa(v.l))
	}
	return f
}

func (g *Gen) dpFields(d *dpDecl) []string {
	switch d.kind {
	case dkAttr:
		return g.dpAttrFields(d.attr)
	case dkValue:
		return []string{"VALUE", d.val.attr, d.val.name, g.dpU32Text(d.val.num)}
	case dkVendor:
		return g.dpVendorFields(d.ven)
	case dkBegin:
		return []string{"BEGIN-VENDOR", d.ven.name}
	case dkEnd:
		return []string{"END-VENDOR", d.ven.name}
	}
	return []string{"$INCLUDE", d.inc}
}

// dpCtx keeps the names and numbers in use, so that generated dictionaries are well formed.
type dpCtx struct {
	g        *Gen
	scope    map[*dpVendor]map[string]bool // attribute names per scope (nil = top level)
	attrList []string                      // every attribute name, in creation order
	all      map[string]bool               // every attribute and vendor name
	venNames map[string]bool
	venNums  map[int64]bool
}

func newDpCtx(g *Gen) *dpCtx {
	return &dpCtx{g: g, scope: map[*dpVendor]map[string]bool{}, all: map[string]bool{}, venNames: map[string]bool{}, venNums: map[int64]bool{}}
}

// fresh is a name used nowhere in the context (it is not registered).
func (c *dpCtx) fresh() string {
	for {
		t := c.g.dpToken()
		if !c.all[t] {
			return t
		}
	}
}

func (c *dpCtx) freshNum() int64 {
	for {
		n := int64(c.g.Range(1, 70000))
		if !c.venNums[n] {
			return n
		}
	}
}

func (c *dpCtx) newAttr(sc *dpVendor) *dpAttr {
	g := c.g
	if c.scope[sc] == nil {
		c.scope[sc] = map[string]bool{}
	}
	name := ""
	if len(c.attrList) > 0 && g.Chance(1, 6) {
		// the same name in another scope is legal
		if n := c.attrList[g.Intn(len(c.attrList))]; !c.scope[sc][n] {
			name = n
		}
	}
	for name == "" || c.scope[sc][name] {
		name = g.dpToken()
	}
	c.scope[sc][name] = true
	c.all[name] = true
	c.attrList = append(c.attrList, name)
	return g.dpAttrBody(name)
}

func (c *dpCtx) newValue() *dpValue {
	g := c.g
	v := &dpValue{name: g.dpToken(), num: g.dpU32()}
	if len(c.attrList) > 0 && g.Chance(7, 10) {
		v.attr = c.attrList[g.Intn(len(c.attrList))]
	} else {
		v.attr = g.dpToken()
	}
	return v
}

func (c *dpCtx) newVendor() *dpVendor {
	g := c.g
	v := &dpVendor{}
	for v.name == "" || c.venNames[v.name] {
		v.name = g.dpToken()
	}
	for {
		switch g.Intn(20) {
		case 0, 1:
			v.num = -int64(g.Range(1, 100000))
		case 2:
			v.num = []int64{0, 2147483647, -2147483648, -1}[g.Intn(4)]
		case 3, 4, 5:
			v.num = int64(g.U64() % 2147483648)
		default:
			v.num = int64(g.Range(1, 60000))
		}
		if !c.venNums[v.num] {
			break
		}
	}
	c.venNames[v.name], c.venNums[v.num], c.all[v.name] = true, true, true
	if g.Chance(1, 2) {
		v.hasFmt, v.t, v.l = true, g.Pick(1, 2, 4), g.Pick(0, 1, 2)
	}
	return v
}

// genDecls makes a well-formed declaration sequence of about n lines.  Vendor blocks are opened
// only for vendors declared in this sequence (a block is local to its file).
func (c *dpCtx) genDecls(n int) []*dpDecl {
	g := c.g
	var out []*dpDecl
	var local []*dpVendor
	var cur *dpVendor
	for i := 0; i < n; i++ {
		r := g.Intn(100)
		switch {
		case cur != nil && r < 45, cur == nil && r < 35:
			out = append(out, &dpDecl{kind: dkAttr, attr: c.newAttr(cur)})
		case cur != nil && r < 70, cur == nil && r < 55:
			out = append(out, &dpDecl{kind: dkValue, val: c.newValue()})
		case cur != nil:
			out = append(out, &dpDecl{kind: dkEnd, ven: cur})
			cur = nil
		case r < 75 || len(local) == 0:
			v := c.newVendor()
			local = append(local, v)
			out = append(out, &dpDecl{kind: dkVendor, ven: v})
		default:
			cur = local[g.Intn(len(local))]
			out = append(out, &dpDecl{kind: dkBegin, ven: cur})
		}
	}
	if cur != nil {
		out = append(out, &dpDecl{kind: dkEnd, ven: cur})
	}
	return out
}

// richDecls has every structure the fault stream wants to hit: top-level attributes, two vendors,
// a vendor with two blocks, attributes in each block.
func (c *dpCtx) richDecls() []*dpDecl {
	g := c.g
	var out []*dpDecl
	add := func(d *dpDecl) { out = append(out, d) }
	optValue := func() {
		if g.Bool() {
			add(&dpDecl{kind: dkValue, val: c.newValue()})
		}
	}
	add(&dpDecl{kind: dkAttr, attr: c.newAttr(nil)})
	optValue()
	v1, v2 := c.newVendor(), c.newVendor()
	add(&dpDecl{kind: dkVendor, ven: v1})
	if g.Bool() {
		add(&dpDecl{kind: dkAttr, attr: c.newAttr(nil)})
	}
	add(&dpDecl{kind: dkVendor, ven: v2})
	add(&dpDecl{kind: dkBegin, ven: v1})
	add(&dpDecl{kind: dkAttr, attr: c.newAttr(v1)})
	optValue()
	if g.Bool() {
		add(&dpDecl{kind: dkAttr, attr: c.newAttr(v1)})
	}
	add(&dpDecl{kind: dkEnd, ven: v1})
	optValue()
	add(&dpDecl{kind: dkBegin, ven: v2})
	add(&dpDecl{kind: dkAttr, attr: c.newAttr(v2)})
	add(&dpDecl{kind: dkEnd, ven: v2})
	if g.Bool() {
		add(&dpDecl{kind: dkVendor, ven: c.newVendor()})
	}
	add(&dpDecl{kind: dkBegin, ven: v1})
	add(&dpDecl{kind: dkAttr, attr: c.newAttr(v1)})
	optValue()
	add(&dpDecl{kind: dkEnd, ven: v1})
	if g.Bool() {
		add(&dpDecl{kind: dkAttr, attr: c.newAttr(nil)})
	}
	return out
}

// ---------------------------------------------------------------------------------------------
// layouts

func (g *Gen) dpWs1() string {
	n := g.Pick(1, 1, 1, 1, 2, 2, 3, 8)
	b := make([]byte, n)
	for i := range b {
		b[i] = ' '
		if g.Chance(3, 10) {
			b[i] = '\t'
		}
	}
	return string(b)
}

func (g *Gen) dpWs0() string {
	if g.Chance(3, 5) {
		return ""
	}
	return g.dpWs1()
}

// dpComment is '#' followed by arbitrary bytes except '\n'.
func (g *Gen) dpComment() string {
	b := make([]byte, g.Intn(16))
	arbitrary := g.Chance(1, 4)
	for i := range b {
		if arbitrary {
			b[i] = byte(g.U64())
			if b[i] == '\n' {
				b[i] = '#'
			}
		} else {
			b[i] = byte(g.Range(0x20, 0x7e))
		}
	}
	return "#" + string(b)
}

// dpDeclLine lays out one declaration line: leading blanks, fields separated by non-empty runs of
// blanks, trailing blanks, optional comment.
func (g *Gen) dpDeclLine(fields []string) string {
	var b strings.Builder
	b.WriteString(g.dpWs0())
	for i, f := range fields {
		if i > 0 {
			b.WriteString(g.dpWs1())
		}
		b.WriteString(f)
	}
	switch g.Intn(10) {
	case 0, 1, 2:
		b.WriteString(g.dpWs0())
		b.WriteString(g.dpComment())
	case 3, 4:
		b.WriteString(g.dpWs1())
	}
	return b.String()
}

// dpFiller is a line without a declaration.  With probability defectPct% it is a whitespace-only
// line or an indented comment (never in a "plain" layout, defectPct = 0).
func (g *Gen) dpFiller(defectPct int) string {
	if g.Intn(100) < defectPct {
		if g.Bool() {
			return g.dpWs1()
		}
		return g.dpWs1() + g.dpComment()
	}
	if g.Bool() {
		return ""
	}
	return g.dpComment()
}

type dpLine struct {
	text string // without terminator, never contains '\n'
	term string // "\n" or "\r\n"
	d    *dpDecl
}

type dpDoc struct {
	lines     []dpLine
	finalTerm bool // the last line has its terminator (an empty last line always has)
}

func dpJoinLines(lines []dpLine, finalTerm bool) []byte {
	var b bytes.Buffer
	for i, l := range lines {
		b.WriteString(l.text)
		if i < len(lines)-1 || finalTerm || l.text == "" {
			b.WriteString(l.term)
		}
	}
	return b.Bytes()
}

func (d *dpDoc) bytes() []byte { return dpJoinLines(d.lines, d.finalTerm) }

func (g *Gen) dpTermFn() func() string {
	mode := g.Pick(0, 0, 0, 1, 2, 2)
	return func() string {
		if mode == 1 || mode == 2 && g.Bool() {
			return "\r\n"
		}
		return "\n"
	}
}

func (g *Gen) dpLayoutDoc(decls []*dpDecl, defectPct int) *dpDoc {
	term := g.dpTermFn()
	doc := &dpDoc{finalTerm: g.Chance(7, 10)}
	fill := func() {
		for k := g.Pick(0, 0, 0, 0, 0, 0, 1, 1, 1, 2, 3); k > 0; k-- {
			doc.lines = append(doc.lines, dpLine{text: g.dpFiller(defectPct), term: term()})
		}
	}
	for _, d := range decls {
		fill()
		doc.lines = append(doc.lines, dpLine{text: g.dpDeclLine(g.dpFields(d)), term: term(), d: d})
	}
	fill()
	return doc
}

// ---------------------------------------------------------------------------------------------
// single-fault mutations

type dpState struct {
	cur     *dpVendor
	vendors []*dpVendor
	attrs   map[*dpVendor][]*dpAttr // nil = top level
}

func dpStateAt(lines []dpLine, p int) (st *dpState, later []*dpVendor) {
	st = &dpState{attrs: map[*dpVendor][]*dpAttr{}}
	for i, l := range lines {
		if l.d == nil {
			continue
		}
		if i >= p {
			if l.d.kind == dkVendor {
				later = append(later, l.d.ven)
			}
			continue
		}
		switch l.d.kind {
		case dkAttr:
			st.attrs[st.cur] = append(st.attrs[st.cur], l.d.attr)
		case dkVendor:
			st.vendors = append(st.vendors, l.d.ven)
		case dkBegin:
			st.cur = l.d.ven
		case dkEnd:
			st.cur = nil
		}
	}
	return st, later
}

const (
	fDupIdent    = iota // k-th attribute of the scope repeated (same meaning, fresh spelling), ign=0
	fDupDiff            // same name, different rest, ign=0
	fDupDiffIgn         // same name, different rest, ign=1
	fDupIdentIgn        // identical repeat, ign=1: legal, emitted as a `rendered` case
	fDupVenName
	fDupVenNum
	fBeginFresh
	fBeginLater
	fNestedCur
	fNestedOther
	fNestedFresh
	fEndOther
	fEndFresh
	fUnmatchedKnown
	fUnmatchedFresh
	fBadType
	fBadFlag
	fBadEnc
	fRepFlag
	fBadOID
	fBadValNum
	fBadVenNum
	fBadFormat
	fUnknownLine
	fInclude
)

type dpFaultKind struct {
	fam int
	k   int
	s   string
}

const dpUnknownLineShapes = 28

var dpFaultKinds = func() []dpFaultKind {
	var ks []dpFaultKind
	for k := 0; k < 4; k++ {
		ks = append(ks, dpFaultKind{fam: fDupIdent, k: k}, dpFaultKind{fam: fDupDiff, k: k}, dpFaultKind{fam: fDupDiffIgn, k: k}, dpFaultKind{fam: fDupIdentIgn, k: k})
	}
	for k := 0; k < 3; k++ {
		ks = append(ks, dpFaultKind{fam: fDupVenName, k: k}, dpFaultKind{fam: fDupVenNum, k: k})
	}
	for f := fBeginFresh; f <= fUnmatchedFresh; f++ {
		ks = append(ks, dpFaultKind{fam: f})
	}
	strs := func(fam int, ss ...string) {
		for _, s := range ss {
			ks = append(ks, dpFaultKind{fam: fam, s: s})
		}
	}
	strs(fBadType, "strin", "integer32", "octets[]", "octets[x]", "octets[1", "octets[99999999999]", "text",
		// (short tokens that end like a sized type: whatever the parser slices off them must be guarded)
		"]", "a]", "[]", "[1]", "tlv[2]", "byte]", "octet]", "octets]", "ctets[3]", "octets[3", "octets3]")
	strs(fBadFlag, "hastag", "tagged", "encrypt", "has_tag,", ",concat", "HAS_TAG")
	strs(fBadEnc, "encrypt=x", "encrypt=", "encrypt=99999999999")
	strs(fRepFlag, "has_tag,has_tag", "concat,has_tag,concat", "encrypt=1,encrypt=2")
	strs(fBadOID, "1x", "x", "1..2", ".1", "1.", "1.2.", "-1", "0x1", "9223372036854775808", "99999999999999999999", "1.18446744073709551616")
	strs(fBadValNum, "12x", "x", "-1", "+1", "1_0", "4294967296", "0x", "0xg", "0x100000000", "0X10", "0x-1")
	strs(fBadVenNum, "1x", "x", "2147483648", "-2147483649", "1.5", "0x10")
	strs(fBadFormat, "format=3,1", "format=0,1", "format=1,3", "format=1,9", "format=4,/", "format=1,1x", "format=1", "format=1;1", "fmt=1,1", "FORMAT=1,1", "format=11,1")
	for k := 0; k < dpUnknownLineShapes; k++ {
		ks = append(ks, dpFaultKind{fam: fUnknownLine, k: k})
	}
	ks = append(ks, dpFaultKind{fam: fInclude})
	return ks
}()

type dpFaultLine struct {
	fields   []string
	class    string
	ign      string
	rendered bool // legal line: the whole text must parse to the base dictionary
}

// different returns an attribute with a's name that is not Equal to a.
func (g *Gen) dpDifferent(a *dpAttr) *dpAttr {
	b := *a
	b.oid = append([]uint64(nil), a.oid...)
	switch g.Intn(5) {
	case 0:
		if len(b.oid) < 3 && g.Bool() {
			b.oid = append(b.oid, uint64(g.Range(1, 255)))
		} else {
			i := g.Intn(len(b.oid))
			b.oid[i] = (b.oid[i] + uint64(g.Range(1, 100))) % 1000003
			if b.oid[i] == a.oid[i] {
				b.oid[i]++
			}
		}
	case 1:
		if b.hasSize {
			b.size ^= 1
		} else {
			b.typ = (b.typ+g.Intn(16))%17 + 1 // never the same type
		}
	case 2:
		b.tag = !b.tag
	case 3:
		b.concat = !b.concat
	case 4:
		if b.hasEnc && g.Bool() {
			b.hasEnc, b.enc = false, 0
		} else {
			b.hasEnc = true
			if a.enc > 1000 {
				b.enc = a.enc - int64(g.Range(1, 3))
			} else {
				b.enc = a.enc + int64(g.Range(1, 3))
			}
		}
	}
	return &b
}

func (g *Gen) dpPickOtherVendor(vs []*dpVendor, not *dpVendor) *dpVendor {
	var cand []*dpVendor
	for _, v := range vs {
		if v != not {
			cand = append(cand, v)
		}
	}
	if len(cand) == 0 {
		return nil
	}
	return cand[g.Intn(len(cand))]
}

// fault makes the faulty line of one kind for the parser state st (the state just before the
// line), or reports that the kind does not apply there.
func (c *dpCtx) fault(fk dpFaultKind, st *dpState, later []*dpVendor) (dpFaultLine, bool) {
	g := c.g
	no := dpFaultLine{}
	attrLine := func(name string) []string { return g.dpAttrFields(g.dpAttrBody(name)) }
	plainAttr := func(name, oid, typ string) []string { return []string{"ATTRIBUTE", name, oid, typ} }
	switch fk.fam {
	case fDupIdent, fDupDiff, fDupDiffIgn, fDupIdentIgn:
		as := st.attrs[st.cur]
		if fk.k >= len(as) {
			return no, false
		}
		a := as[fk.k]
		switch fk.fam {
		case fDupIdent:
			return dpFaultLine{fields: g.dpAttrFields(a), class: "DuplicateAttribute", ign: "0"}, true
		case fDupDiff:
			return dpFaultLine{fields: g.dpAttrFields(g.dpDifferent(a)), class: "DuplicateAttribute", ign: "0"}, true
		case fDupDiffIgn:
			return dpFaultLine{fields: g.dpAttrFields(g.dpDifferent(a)), class: "DuplicateAttribute", ign: "1"}, true
		}
		return dpFaultLine{fields: g.dpAttrFields(a), ign: "1", rendered: true}, true
	case fDupVenName, fDupVenNum:
		if fk.k >= len(st.vendors) {
			return no, false
		}
		v := *st.vendors[fk.k]
		switch {
		case g.Chance(1, 3):
			// the exact redeclaration: same name AND same number
		case fk.fam == fDupVenName:
			v.num = c.freshNum()
		default:
			v.name = c.fresh()
		}
		if g.Bool() {
			v.hasFmt, v.t, v.l = g.Bool(), g.Pick(1, 2, 4), g.Pick(0, 1, 2)
		}
		return dpFaultLine{fields: g.dpVendorFields(&v), class: "DuplicateVendor", ign: "0"}, true
	case fBeginFresh:
		if st.cur != nil {
			return no, false
		}
		return dpFaultLine{fields: []string{"BEGIN-VENDOR", c.fresh()}, class: "UnknownVendor", ign: "0"}, true
	case fBeginLater:
		if st.cur != nil || len(later) == 0 {
			return no, false
		}
		return dpFaultLine{fields: []string{"BEGIN-VENDOR", later[g.Intn(len(later))].name}, class: "UnknownVendor", ign: "0"}, true
	case fNestedCur, fNestedOther, fNestedFresh:
		if st.cur == nil {
			return no, false
		}
		name := st.cur.name
		if fk.fam == fNestedOther {
			o := g.dpPickOtherVendor(st.vendors, st.cur)
			if o == nil {
				return no, false
			}
			name = o.name
		} else if fk.fam == fNestedFresh {
			name = c.fresh()
		}
		return dpFaultLine{fields: []string{"BEGIN-VENDOR", name}, class: "NestedVendorBlock", ign: "0"}, true
	case fEndOther, fEndFresh:
		if st.cur == nil {
			return no, false
		}
		name := c.fresh()
		if fk.fam == fEndOther {
			o := g.dpPickOtherVendor(st.vendors, st.cur)
			if o == nil {
				return no, false
			}
			name = o.name
		} else if g.Chance(1, 2) {
			// the open vendor's own name in another letter case: names are compared octet by octet
			flipped := []byte(st.cur.name)
			changed := false
			for i, b := range flipped {
				switch {
				case b >= 'a' && b <= 'z':
					flipped[i], changed = b-32, true
				case b >= 'A' && b <= 'Z':
					flipped[i], changed = b+32, true
				}
			}
			if changed {
				known := false
				for _, v := range st.vendors {
					if v.name == string(flipped) {
						known = true
					}
				}
				if !known {
					name = string(flipped)
				}
			}
		}
		return dpFaultLine{fields: []string{"END-VENDOR", name}, class: "InvalidEndVendor", ign: "0"}, true
	case fUnmatchedKnown, fUnmatchedFresh:
		if st.cur != nil {
			return no, false
		}
		name := c.fresh()
		if fk.fam == fUnmatchedKnown {
			if len(st.vendors) == 0 {
				return no, false
			}
			name = st.vendors[g.Intn(len(st.vendors))].name
		}
		return dpFaultLine{fields: []string{"END-VENDOR", name}, class: "UnmatchedEndVendor", ign: "0"}, true
	case fBadType:
		f := attrLine(c.fresh())
		f[3] = fk.s
		return dpFaultLine{fields: f, class: "UnknownAttributeType", ign: "0"}, true
	case fBadFlag, fBadEnc, fRepFlag:
		a := g.dpAttrBody(c.fresh())
		a.tag, a.concat, a.hasEnc = false, false, false
		f := append(g.dpAttrFields(a), fk.s)
		class := map[int]string{fBadFlag: "UnknownAttributeFlag", fBadEnc: "InvalidAttributeEncryptType", fRepFlag: "DuplicateAttributeFlag"}[fk.fam]
		return dpFaultLine{fields: f, class: class, ign: "0"}, true
	case fBadOID:
		f := attrLine(c.fresh())
		f[2] = fk.s
		return dpFaultLine{fields: f, class: "InvalidOID", ign: "0"}, true
	case fBadValNum:
		v := c.newValue()
		return dpFaultLine{fields: []string{"VALUE", v.attr, v.name, fk.s}, class: "Strconv", ign: "0"}, true
	case fBadVenNum:
		f := []string{"VENDOR", c.fresh(), fk.s}
		if g.Chance(1, 3) {
			f = append(f, "format=1,1")
		}
		return dpFaultLine{fields: f, class: "Strconv", ign: "0"}, true
	case fBadFormat:
		return dpFaultLine{fields: []string{"VENDOR", c.fresh(), strconv.FormatInt(c.freshNum(), 10), fk.s}, class: "InvalidVendorFormat", ign: "0"}, true
	case fUnknownLine:
		known := c.fresh()
		if st.cur != nil {
			known = st.cur.name
		} else if len(st.vendors) > 0 {
			known = st.vendors[g.Intn(len(st.vendors))].name
		}
		n := c.fresh()
		var f []string
		switch fk.k {
		case 0:
			f = []string{"ATTRIBUTE", n, "1"}
		case 1:
			a := g.dpAttrBody(n)
			a.tag = true
			f = append(g.dpAttrFields(a), g.dpToken())
		case 2:
			f = []string{"VALUE", n, g.dpToken()}
		case 3:
			f = []string{"VALUE", n, g.dpToken(), "1", g.dpToken()}
		case 4:
			f = []string{"VENDOR", n}
		case 5:
			f = []string{"VENDOR", n, strconv.FormatInt(c.freshNum(), 10), "format=1,1", g.dpToken()}
		case 6:
			f = []string{"BEGIN-VENDOR"}
		case 7:
			f = []string{"BEGIN-VENDOR", known, g.dpToken()}
		case 8:
			f = []string{"END-VENDOR"}
		case 9:
			f = []string{"END-VENDOR", known, g.dpToken()}
		case 10:
			f = []string{"$INCLUDE"}
		case 11:
			f = []string{"$INCLUDE", n, g.dpToken()}
		case 12:
			f = plainAttr(n, "1", "string")
			f[0] = "FOO"
		case 13:
			f = []string{g.dpToken()}
		case 14:
			f = plainAttr(n, "1", "string")
			f[0] = "ATTRIBUTES"
		case 15:
			f = []string{"BEGIN_VENDOR", known}
		case 16:
			f = []string{"INCLUDE", n}
		case 17:
			f = plainAttr(n, "1", "string")
			f[0] = "attribute"
		case 18:
			f = []string{"value", n, g.dpToken(), "1"}
		case 19:
			f = []string{"vendor", n, strconv.FormatInt(c.freshNum(), 10)}
		case 20:
			f = []string{"begin-vendor", known}
		case 21:
			f = []string{"end-vendor", known}
		case 22:
			f = []string{"$include", n}
		case 23:
			f = plainAttr(n, "1", "string")
			f[0] = "Attribute"
		case 24:
			f = []string{"ATTRIBUTE", n}
		case 25:
			f = []string{"ATTRIBUTE"}
		case 26:
			f = []string{"VALUE"}
		case 27:
			f = []string{"ATTRIBUTE", n, "1", "string", "has_tag", "concat"}
		}
		return dpFaultLine{fields: f, class: "UnknownLine", ign: "0"}, true
	case fInclude:
		class := "Open"
		if st.cur != nil {
			class = "BeginVendorInclude"
		}
		return dpFaultLine{fields: []string{"$INCLUDE", c.fresh()}, class: class, ign: "0"}, true
	}
	return no, false
}

// dpFaultsOf emits the fault cases of one base document (plain layout).
func dpFaultsOf(g *Gen, c *dpCtx, decls []*dpDecl, everyPosition bool, emit func(op string, args ...string)) {
	doc := g.dpLayoutDoc(decls, 0)
	base := dpExpect(decls)
	L := len(doc.lines)
	at := func(fk dpFaultKind, p int) bool {
		st, later := dpStateAt(doc.lines, p)
		fl, ok := c.fault(fk, st, later)
		if !ok {
			return false
		}
		term := "\n"
		if g.Chance(1, 4) {
			term = "\r\n"
		}
		lines := make([]dpLine, 0, L+1)
		lines = append(lines, doc.lines[:p]...)
		lines = append(lines, dpLine{text: g.dpDeclLine(fl.fields), term: term})
		lines = append(lines, doc.lines[p:]...)
		text := hx(dpJoinLines(lines, g.Chance(7, 10)))
		if fl.rendered {
			emit("rendered", text, fl.ign, base)
		} else {
			emit("fault", text, fl.ign, fl.class, itoa(p+1))
		}
		return true
	}
	for _, fk := range dpFaultKinds {
		if everyPosition {
			for p := 0; p <= L; p++ {
				at(fk, p)
			}
		} else {
			for try := 0; try < 12; try++ {
				if at(fk, g.Intn(L+1)) {
					break
				}
			}
		}
	}
	// block left open: (1) the text cut inside a block
	var inBlock []int
	for p := 1; p <= L; p++ {
		if st, _ := dpStateAt(doc.lines, p); st.cur != nil {
			inBlock = append(inBlock, p)
		}
	}
	if !everyPosition && len(inBlock) > 2 {
		i, j := g.Intn(len(inBlock)), g.Intn(len(inBlock))
		inBlock = []int{inBlock[i], inBlock[j]}
	}
	for _, p := range inBlock {
		emit("fault", hx(dpJoinLines(doc.lines[:p], g.Chance(1, 2))), "0", "UnclosedVendorBlock", itoa(p))
	}
	// (2) BEGIN-VENDOR <known> and a tail without END-VENDOR appended
	st, _ := dpStateAt(doc.lines, L)
	for vi, v := range st.vendors {
		reps := 1
		if everyPosition {
			reps = 4
		} else if vi > 0 {
			break
		}
		for r := 0; r < reps; r++ {
			lines := append([]dpLine(nil), doc.lines...)
			term := g.dpTermFn()
			lines = append(lines, dpLine{text: g.dpDeclLine([]string{"BEGIN-VENDOR", v.name}), term: term()})
			used := map[string]bool{}
			for k := g.Intn(5); k > 0; k-- {
				var t string
				switch g.Intn(4) {
				case 0:
					n := c.fresh()
					for used[n] {
						n = c.fresh()
					}
					used[n] = true
					t = g.dpDeclLine(g.dpAttrFields(g.dpAttrBody(n)))
				case 1:
					t = g.dpDeclLine(g.dpFields(&dpDecl{kind: dkValue, val: c.newValue()}))
				default:
					t = g.dpFiller(0)
				}
				lines = append(lines, dpLine{text: t, term: term()})
			}
			emit("fault", hx(dpJoinLines(lines, g.Chance(1, 2))), "0", "UnclosedVendorBlock", itoa(len(lines)))
		}
	}
}

// ---------------------------------------------------------------------------------------------
// hand-written edge texts

var dpUnicodeSpaces = []string{"\u00a0", "\u0085", "\u1680", "\u2000", "\u2001", "\u2002", "\u2003", "\u2004", "\u2005", "\u2006",
	"\u2007", "\u2008", "\u2009", "\u200a", "\u2028", "\u2029", "\u202f", "\u205f", "\u3000"}

// byte strings that look like the beginning of a Unicode space but are not one
var dpNotSpaces = []string{"\xc2", "\x85", "\xa0", "\xe2\x80", "\xe2", "\xe2\x80\x8b", "\xe1\x9a", "\xe3\x80", "\xe2\x81", "\xc2\xa1",
	"\xc2\x84", "\xe2\x80\x8b", "\xe2\x80\xa7", "\xe2\x80\xaa", "\xe3\x80\x81", "\xe1\x9a\x81", "\x1c", "\x1d", "\x1e", "\x1f", "\x00", "\x7f",
	"\xef\xbb\xbf", "\xe1\xa0\x8e", "\xe2\x81\xa0", "\xff", "\xc0\xa0", "\xe0\x80\xa0"}

func dpEdgeTexts() []string {
	v := "ATTRIBUTE a 1 string"
	w := "ATTRIBUTE b 2 integer\n"
	ts := []string{
		"", "\n", "\r\n", "#", " \t ", "  # c", " \t \n", "  # c\n", "\t#\n", "\r", "\r\r\n", "\n\n", "#\n#", "##", " ", "\t",
		v, v + "\n", v + "\r\n", v + "\r", v + "\n\r", v + "\r\r\n", v + "\n\n", v + "\n \n" + w, v + "\n  # c\n" + w, v + "\n\r\n" + w, v + "#\n", v + " #x\r\n" + w,
		"ATTRIBUTE\va\v1\vstring", "ATTRIBUTE\fa\f1\fstring\n", "ATTRIBUTE a\r1 string\n", "ATTRIBUTE\ra\r1\rstring\n", "ATTRIBUTE a 1\rstring", "\v\n", "\f", "\v", " \f\v\r \n" + w,
		"ATTRIBUTE a\x00b 1 string\n", "\x00\n", "ATTRIBUTE a 1 string\x00\n",
		// non-ASCII "letter case"
		"ATTRIBUTE a 1 \u017ftring\n", "ATTRIBUTE a 1 octet\u017f\n", "ATTRIBUTE a 1 \u017fhort\n", "ATTRIBUTE a 1 v\u017fa\n", "ATTRIBUTE a 1 \u017figned\n",
		"ATTRIBUTE a 1 \u017fTRING\n", "ATTRIBUTE a 1 octet\u017f[3]\n", "ATTRIBUTE a 1 OCTET\u017f[3]\n", "ATTRIBUTE a 1 string ha\u017f_tag\n", "ATTRIBUTE a 1 \u017f\n",
		"ATTRIBUTE a 1 \u212a\n", "\u212aEYWORD a 1 string\n", "ATTRIBUTE \u212a 1 string\n", "ATTRIBUTE a 1 to\u212aen\n", "VALUE a \u212a 0x1\u212a\n", "ATTRIBUTE a 1 \u0131nteger\n", "ATTRIBUTE a 1 \u0130nteger\n",
		"ATTRIBUTE a 1 STRING\n", "ATTRIBUTE a 1 Octets[8]\n", "ATTRIBUTE a 1 octets[8]x\n", "ATTRIBUTE a 1 octets[[8]\n", "ATTRIBUTE a 1 octets[8]]\n", "ATTRIBUTE a 1 octets[-0]\n", "ATTRIBUTE a 1 octets[0x8]\n", "ATTRIBUTE a 1 octets[1_0]\n",
		// anticipated defects and boundaries
		"VENDOR x 1 format=1,9\n", "VENDOR x 1 format=4,/\n", "VENDOR x 1 format=1,3\n", "VENDOR x 1 format=1,2\n", "VENDOR x 1 format=4,0\n", "VENDOR x 1 format=1,:\n",
		"ATTRIBUTE a 99999999999999999999 string\n", "ATTRIBUTE a 9223372036854775807 string\n", "ATTRIBUTE a 9223372036854775808 string\n", "ATTRIBUTE a 18446744073709551616 string\n",
		"ATTRIBUTE a 18446744073709551615 string\n", "ATTRIBUTE a 1.18446744073709551617.3 string\n", "ATTRIBUTE a 0 string\n", "ATTRIBUTE a 00 string\n", "ATTRIBUTE a 0.0.0 string\n",
		"ATTRIBUTE a \u0661 string\n", "ATTRIBUTE a 1\u06612 string\n", "ATTRIBUTE a 1.\u0662 string\n",
		"VALUE a b 4294967295\n", "VALUE a b 4294967296\n", "VALUE a b 0xffffffff\n", "VALUE a b 0xFFFFFFFF\n", "VALUE a b 0x0\n", "VALUE a b 0x\n", "VALUE a b 0\n", "VALUE a b 0x0x1\n", "VALUE a b 0x+1\n", "VALUE a b 0x1_0\n",
		"VENDOR x 2147483647\n", "VENDOR x -2147483648\n", "VENDOR x 2147483648\n", "VENDOR x -0\n", "VENDOR x +0\n", "VENDOR x 1\nVENDOR y 1\n", "VENDOR x 1\nVENDOR x 2\n", "VENDOR x 1\nVENDOR y +01\n",
		"VENDOR x 1\nBEGIN-VENDOR x\nVENDOR y 2\nEND-VENDOR x\n", "VENDOR x 1\nBEGIN-VENDOR x\nVENDOR y 2\nEND-VENDOR x\nBEGIN-VENDOR y\nEND-VENDOR y\n",
		"VENDOR x 1\nBEGIN-VENDOR x\n", "VENDOR x 1\nBEGIN-VENDOR x", "VENDOR x 1\nBEGIN-VENDOR x\n\n\n", "VENDOR x 1\nBEGIN-VENDOR x\n#\n#", "BEGIN-VENDOR x\n", "END-VENDOR x\n",
		"ATTRIBUTE a 1 string\nATTRIBUTE a 1 string\n", "ATTRIBUTE a 1 string\nATTRIBUTE a 01 STRING\n", "ATTRIBUTE a 1 string\nVENDOR x 1\nBEGIN-VENDOR x\nATTRIBUTE a 1 string\nEND-VENDOR x\n",
		"ATTRIBUTE a 1 string encrypt=1,has_tag,concat\n", "ATTRIBUTE a 1 string ,\n", "ATTRIBUTE a 1 string encrypt=1,\n", "ATTRIBUTE a 1 string encrypt=-0\n", "ATTRIBUTE a 1 string encrypt==1\n",
		"$INCLUDE x\n", "$INCLUDE root\n", "$INCLUDE\n", "$INCLUDE #x\n", "ATTRIBUTE#a 1 string\n", "ATTRIBUTE a 1#string\n", "ATTRIBUTE a 1 string#\n",
	}
	for _, s := range dpUnicodeSpaces {
		ts = append(ts, "ATTRIBUTE"+s+"a"+s+"1"+s+"string\n", s, s+"\n"+w, v+s+"\n", s+v, "ATTRIBUTE a"+s+"b 1 string\n", s+"# c\n"+w, v+" "+s+" has_tag\n")
	}
	for _, s := range dpNotSpaces {
		ts = append(ts, "ATTRIBUTE"+s+"a"+s+"1"+s+"string\n", s, "ATTRIBUTE a"+s+"b 1 string\n", v+s+"\n", s+v+"\n", v+" "+s+"\n", "ATTRIBUTE a"+s+"A 1 string "+s)
	}
	ts = append(ts, "ATTRIBUTE a\xe2\x80A 1 string\n", "ATTRIBUTE a \xe2\x80A 1 string\n", "ATTRIBUTE a\xc2 b 1 string\n", "ATTRIBUTE a 1 string\xc2\n", "ATTRIBUTE a\xe2\x80\n1 string\n", "ATTRIBUTE a 1 string \xc2\n\xa0\n")
	// long lines: raw length = bytes before '\n' (a '\r' of CRLF included)
	for _, n := range []int{65534, 65535, 65536, 65537, 70000} {
		for kind := 0; kind < 2; kind++ {
			long := func(n int) string {
				if kind == 0 {
					return "#" + strings.Repeat("c", n-1)
				}
				return "ATTRIBUTE a 1" + strings.Repeat(" ", n-len("ATTRIBUTE a 1string")) + "string"
			}
			ts = append(ts,
				long(n)+"\n"+w,     // (a) first line
				w+long(n)+"\n",     // (b) after a valid line
				w+long(n),          // (c) last line, no terminator
				long(n-1)+"\r\n"+w, // (d) CRLF
				w+long(n-1)+"\r",   // (c) with a bare CR at EOF
			)
		}
	}
	ts = append(ts, strings.Repeat("A", 100000), "#"+strings.Repeat("c", 99999), strings.Repeat(" ", 100000), w+strings.Repeat("\n", 70000)+"ATTRIBUTE c 3 date",
		strings.Repeat("#\r\n", 30000)+w, strings.Repeat(" ", 4095)+"\n"+w, strings.Repeat(" ", 4096)+"\n"+w, "#"+strings.Repeat("c", 4094)+"\r\n"+w, "#"+strings.Repeat("c", 4095)+"\r\n"+w)
	return ts
}

// ---------------------------------------------------------------------------------------------
// arbitrary texts

var dpSmallAlphabet = []byte{' ', '\t', '\n', '\r', '#', 'A', '1', '.', ',', '=', 0xC2, 0x85, 0xA0, 0xE2, 0x80, 0xFF}

var dpSoupWords = []string{"ATTRIBUTE", "VALUE", "VENDOR", "BEGIN-VENDOR", "END-VENDOR", "$INCLUDE", "string", "octets", "integer", "ipaddr", "date", "vsa", "tlv",
	"octets[3]", "octets[", "OCTETS[16]", "String", "has_tag", "concat", "encrypt=1", "encrypt=2", "has_tag,concat", "encrypt=", "format=1,1", "format=2,0", "format=4,2", "format=1,9",
	"0", "1", "2", "26", "255", "1.2", "1.2.3", "0x10", "0xFF", "4294967295", "-1", "+1", "a", "b", "c", "v", "w", "User-Name", "#", "#x", ",", "=", ".", "0x", "[", "]", "tlv[2]", "x]", "[9]"}

// dpSoup keeps a rough picture of the parser state so that most lines are acceptable where they
// stand and a text reaches vendor blocks, duplicates, nested blocks … before its first fault.
type dpSoup struct {
	g        *Gen
	declared []string
	open     string
	n        int
}

func (s *dpSoup) line() string {
	g := s.g
	names := []string{"a", "b", "c", "v", "w", "N-1", "x.y"}
	name := func() string { return names[g.Intn(len(names))] }
	word := func() string { return dpSoupWords[g.Intn(len(dpSoupWords))] }
	num := func() string {
		return []string{"0", "1", "2", "3", "26", "255", "1.2", "0x10", "4294967295", "-1", "007", "x"}[g.Intn(12)]
	}
	sane := g.Chance(4, 5) // pick what is legal in the current state
	s.n++
	var f []string
	kind := g.Intn(12)
	if sane {
		switch {
		case (kind == 5 || kind == 6) && (s.open != "" || len(s.declared) == 0):
			kind = 3
			if s.open != "" {
				kind = 7
			}
		case (kind == 7 || kind == 8) && s.open == "":
			kind = 0
		case kind == 9:
			kind = 2
		}
	}
	switch kind {
	case 0, 1:
		nm := name()
		if sane {
			nm += itoa(s.n)
		}
		f = []string{"ATTRIBUTE", nm, num(), []string{"string", "octets", "integer", "OCTETS[4]", "vsa", "tlv", "Date", "foo"}[g.Intn(8)]}
		if sane {
			f[2] = itoa(g.Range(1, 255))
			f[3] = []string{"string", "octets", "integer", "OCTETS[4]", "vsa", "tlv", "Date", "ipaddr"}[g.Intn(8)]
		}
		if g.Chance(1, 3) {
			f = append(f, []string{"has_tag", "concat", "encrypt=1", "has_tag,concat", "encrypt=2,has_tag", "x", "has_tag,has_tag"}[g.Intn(7)])
			if sane {
				f[4] = []string{"has_tag", "concat", "encrypt=1", "has_tag,concat", "encrypt=2,has_tag"}[g.Intn(5)]
			}
		}
	case 2:
		f = []string{"VALUE", name(), name(), num()}
		if sane {
			f[3] = []string{"0", "1", "0x10", "4294967295", "007", "0xfF"}[g.Intn(6)]
		}
	case 3, 4:
		f = []string{"VENDOR", name(), num()}
		if sane {
			f[1] += itoa(s.n)
			f[2] = itoa(100 + s.n)
			s.declared = append(s.declared, f[1])
		}
		if g.Chance(1, 3) {
			f = append(f, []string{"format=1,1", "format=2,2", "format=4,0", "format=1,9", "format=3,1"}[g.Intn(5)])
			if sane {
				f[3] = []string{"format=1,1", "format=2,2", "format=4,0"}[g.Intn(3)]
			}
		}
	case 5, 6:
		f = []string{"BEGIN-VENDOR", name()}
		if sane {
			f[1] = s.declared[g.Intn(len(s.declared))]
			s.open = f[1]
		}
	case 7, 8:
		f = []string{"END-VENDOR", name()}
		if sane {
			f[1] = s.open
			s.open = ""
		}
	case 9:
		f = []string{"$INCLUDE", name()}
	default:
		for k := g.Intn(7); k > 0; k-- {
			f = append(f, word())
		}
		if sane && g.Bool() {
			f = nil
		}
	}
	if !sane {
		if g.Chance(1, 3) && len(f) > 0 {
			f[g.Intn(len(f))] = word()
		}
		if g.Chance(1, 5) {
			f = append(f, word())
		}
	}
	var b strings.Builder
	if len(f) > 0 || !sane {
		b.WriteString(g.dpWs0())
	}
	for i, x := range f {
		if i > 0 {
			b.WriteString(g.dpWs1())
		}
		b.WriteString(x)
	}
	if len(f) > 0 || !sane {
		b.WriteString(g.dpWs0())
	}
	if len(f) == 0 && sane && g.Bool() {
		b.WriteString("#" + word())
	}
	return b.String()
}

func (g *Gen) dpArbitrary(i int) []byte {
	n := g.Intn(201)
	switch i % 6 {
	case 0:
		return g.RandBytes(n)
	case 1, 2:
		b := make([]byte, n)
		for k := range b {
			b[k] = dpSmallAlphabet[g.Intn(len(dpSmallAlphabet))]
		}
		return b
	}
	var b bytes.Buffer
	s := &dpSoup{g: g}
	for b.Len() < n {
		b.WriteString(s.line())
		if g.Chance(1, 5) {
			b.WriteString("\r\n")
		} else {
			b.WriteString("\n")
		}
	}
	if s.open != "" && g.Chance(3, 4) {
		b.WriteString("END-VENDOR " + s.open + "\n")
	}
	if g.Chance(1, 4) && b.Len() > 0 {
		b.Truncate(b.Len() - 1)
	}
	return b.Bytes()
}

var dpEditBytes = []byte{' ', '\t', '\n', '\r', '#', ',', '=', '.', '0', '9', 'x', '[', ']', '-', '+', 'A', 'a', 0xC2, 0xA0, 0x85, 0x00}

func (g *Gen) dpByteEdit(t []byte) []byte {
	c := byte(g.U64())
	if g.Bool() {
		c = dpEditBytes[g.Intn(len(dpEditBytes))]
	}
	out := make([]byte, 0, len(t)+1)
	switch op := g.Intn(3); {
	case op == 0 || len(t) == 0: // insert
		p := g.Intn(len(t) + 1)
		out = append(append(append(out, t[:p]...), c), t[p:]...)
	case op == 1: // delete
		p := g.Intn(len(t))
		out = append(append(out, t[:p]...), t[p+1:]...)
	default: // replace
		p := g.Intn(len(t))
		out = append(out, t...)
		out[p] = c
	}
	return out
}

// ---------------------------------------------------------------------------------------------

var dpDeclCounts = []int{0, 1, 2, 3, 4, 5, 6, 8, 8, 10, 12, 16}

func genC16(g *Gen, tier string, emit func(op string, args ...string)) {
	nRendered, nRich, nRandomBase, nArb, nMut := 4600, 6, 5, 1050, 700
	thorough := tier == "thorough"
	if thorough {
		nRendered, nRich, nRandomBase, nArb, nMut = 38000, 3, 3, 7000, 5000
	}

	// 1. rendered: abstract dictionaries x layouts; every third case in a plain layout
	for i := 0; i < nRendered; i++ {
		c := newDpCtx(g)
		decls := c.genDecls(dpDeclCounts[g.Intn(len(dpDeclCounts))])
		defect := 0
		if i%3 != 0 {
			defect = g.Pick(4, 4, 10, 35)
		}
		ign := "0"
		if g.Chance(1, 10) {
			ign = "1"
		}
		emit("rendered", hx(g.dpLayoutDoc(decls, defect).bytes()), ign, dpExpect(decls))
	}

	// 2. single faults
	for i := 0; i < nRich+nRandomBase; i++ {
		c := newDpCtx(g)
		var decls []*dpDecl
		if i < nRich {
			decls = c.richDecls()
		} else {
			decls = c.genDecls(g.Range(6, 14))
		}
		dpFaultsOf(g, c, decls, thorough, emit)
	}

	// 3. hand-written edge texts
	for _, t := range dpEdgeTexts() {
		emit("parse", hx([]byte(t)), "0")
	}
	emit("parse", hx([]byte("ATTRIBUTE a 1 string\nATTRIBUTE a 01 STRING\n")), "1")
	emit("parse", hx([]byte("ATTRIBUTE a 1 string\nATTRIBUTE a 2 string\n")), "1")

	// 4. arbitrary bytes
	for i := 0; i < nArb; i++ {
		ign := "0"
		if g.Chance(1, 5) {
			ign = "1"
		}
		emit("parse", hx(g.dpArbitrary(i)), ign)
	}

	// 5. valid texts with one byte edit
	for i := 0; i < nMut; i++ {
		c := newDpCtx(g)
		decls := c.genDecls(g.Range(1, 10))
		ign := "0"
		if g.Chance(1, 10) {
			ign = "1"
		}
		emit("parse", hx(g.dpByteEdit(g.dpLayoutDoc(decls, 0).bytes())), ign)
	}
}
