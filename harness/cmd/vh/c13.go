package main

import (
	"bytes"
	"io"
	"net"
	"strings"
	"time"

	"layeh.com/radius"
	"layeh.com/radius/debug"
	"layeh.com/radius/dictionary"
)

func init() {
	props["C13"] = &prop{gen: genC13, eval: evalC13, pure: true, par: func(string) bool { return true }}
	props["C02"] = &prop{gen: genC02, eval: evalC02, timeout: 5 * time.Second, pure: true, par: func(string) bool { return true }}
}

// ---------- C13: observers are pure, results are copies ----------

type readResult struct {
	repr   string
	slices [][]byte // every byte slice reachable from the result (to be scribbled on)
	strs   []string // every string of the result (a string may be a view of the packet's bytes too)
}

func gvalSlices(v gval) [][]byte {
	var s [][]byte
	if v.B != nil {
		s = append(s, v.B)
	}
	if v.Net != nil {
		s = append(s, v.Net.IP, v.Net.Mask)
	}
	return s
}

func helperReaders(e *helperEntry) map[string]func(p, q *radius.Packet) readResult {
	m := map[string]func(p, q *radius.Packet) readResult{}
	m["Lookup"] = func(p, q *radius.Packet) readResult {
		t, v, err := e.Lookup(p, q)
		r := itoa(int(t)) + ":" + showGval(e, v)
		if err != nil {
			r = "err:" + err.Error()
		}
		return readResult{r, gvalSlices(v), nil}
	}
	m["Get"] = func(p, q *radius.Packet) readResult {
		t, v := e.Get(p, q)
		return readResult{itoa(int(t)) + ":" + showGval(e, v), gvalSlices(v), nil}
	}
	if e.Gets != nil {
		m["Gets"] = func(p, q *radius.Packet) readResult {
			ts, vs, err := e.Gets(p, q)
			var parts []string
			var sl [][]byte
			for i, v := range vs {
				t := 0
				if i < len(ts) {
					t = int(ts[i])
				}
				parts = append(parts, itoa(t)+":"+showGval(e, v))
				sl = append(sl, gvalSlices(v)...)
			}
			if ts != nil {
				sl = append(sl, ts)
			}
			r := strings.Join(parts, ";")
			if err != nil {
				r += "!"
			}
			return readResult{r, sl, nil}
		}
	}
	if e.GetString != nil {
		m["GetString"] = func(p, q *radius.Packet) readResult {
			t, s := e.GetString(p, q)
			return readResult{itoa(int(t)) + ":" + hx([]byte(s)), nil, []string{s}}
		}
		m["LookupString"] = func(p, q *radius.Packet) readResult {
			t, s, err := e.LookupString(p, q)
			r := itoa(int(t)) + ":" + hx([]byte(s))
			if err != nil {
				r = "err"
			}
			return readResult{r, nil, []string{s}}
		}
	}
	if e.GetStrings != nil {
		m["GetStrings"] = func(p, q *radius.Packet) readResult {
			ts, ss, err := e.GetStrings(p, q)
			r := strings.Join(ss, "\x00")
			if err != nil {
				r += "!"
			}
			var sl [][]byte
			if ts != nil {
				sl = append(sl, ts)
			}
			return readResult{hx([]byte(r)) + hx(ts), sl, ss}
		}
	}
	return m
}

func snapshot(p *radius.Packet) string {
	// attribute list incl. out-of-range types, plus header fields
	return showPacketFields(p) + "/" + hx(p.Secret)
}

// purity of one observer on a packet: mut (packet changed), rep (second read differs), alias
// (scribbling over the result changes the packet)
func purity(p, q *radius.Packet, f func(p, q *radius.Packet) readResult) string {
	before := snapshot(p)
	r1 := f(p, q)
	mid := snapshot(p)
	r2 := f(p, q)
	mut, rep, alias := "0", "0", "0"
	if mid != before || snapshot(p) != before {
		mut = "1"
	}
	if r1.repr != r2.repr {
		rep = "1"
	}
	for _, s := range r1.slices {
		for i := range s {
			s[i] ^= 0xff
		}
	}
	if snapshot(p) != mid {
		alias = "1"
	}
	// … nor with anything a LATER read draws on (a table of masks, a pooled buffer): with the earlier result
	// scribbled over, the same read gives what it gave before
	if r3 := f(p, q); r3.repr != r2.repr {
		alias = "1"
	}
	// undo so that later observers see the original packet if it was aliased
	for _, s := range r1.slices {
		for i := range s {
			s[i] ^= 0xff
		}
	}
	// the other direction, for strings: the caller edits the packet's attribute octets in place; strings
	// handed out earlier are values and must still read as they did
	if len(r1.strs) > 0 {
		was := strings.Join(r1.strs, "\x00")
		wasCopy := string(append([]byte{}, was...))
		for _, avp := range p.Attributes {
			for i := range avp.Attribute {
				avp.Attribute[i] ^= 0xff
			}
		}
		if strings.Join(r1.strs, "\x00") != wasCopy {
			alias = "1"
		}
		for _, avp := range p.Attributes {
			for i := range avp.Attribute {
				avp.Attribute[i] ^= 0xff
			}
		}
	}
	return "mut=" + mut + ",rep=" + rep + ",alias=" + alias
}

var readerOrder = []string{"Lookup", "Get", "Gets", "GetString", "LookupString", "GetStrings"}

func evalC13(op string, args []string) string {
	switch op {
	case "purehelper":
		name := strings.SplitN(args[0], "|", 2)[0]
		e := lookupHelper(name)
		if e == nil || descOf(e) != args[0] {
			return "BAD-CASE"
		}
		auth := unhx(args[3])
		if len(auth) != 16 {
			return "BAD-CASE"
		}
		p := &radius.Packet{Code: 1, Secret: unhx(args[2])}
		copy(p.Authenticator[:], auth)
		// q is the request the reply answers: the helpers take its AUTHENTICATOR (and nothing else) from it;
		// whatever secret that packet value happens to carry is not the one the attribute is hidden with
		q := &radius.Packet{Code: 1, Secret: p.Secret}
		switch (len(args[1]) + len(args[2])) % 3 {
		case 1:
			q.Secret = nil
		case 2:
			q.Secret = append([]byte("not-the-secret-"), p.Secret...)
		}
		copy(q.Authenticator[:], auth)
		p.Attributes = toAttributes(parseAVPs(args[1]))
		rs := helperReaders(e)
		var out []string
		// printing a value is a read as well: String() of numbers without a name leaves the exported X_Strings
		// table as it was (its size is looked at; the names themselves are C12's business)
		tableWritten := false
		if e.Strings != nil && e.Str != nil {
			n0 := len(e.Strings())
			for _, k := range []uint64{4242, 0xfffffffe, 77, uint64(len(args[1])) + 1000} {
				_ = e.Str(k)
			}
			tableWritten = len(e.Strings()) != n0
		}
		for _, n := range readerOrder {
			if f, ok := rs[n]; ok {
				r := purity(p, q, f)
				if tableWritten {
					r = strings.Replace(r, "mut=0", "mut=1", 1)
				}
				out = append(out, n+":"+r)
			}
		}
		return strings.Join(out, " ")
	case "purecore":
		// Parse / MarshalBinary / Encode / predicates / list Get+Lookup / typed decoders / debug dumper
		b := unhx(args[0])
		secret := unhx(args[1])
		// "input" = the whole backing array the caller handed over: the octets behind len() up to the
		// capacity belong to the caller as well (the rest of a receive buffer, the next datagram)
		full := func(x []byte) []byte { return x[:cap(x)] }
		orig := append([]byte{}, full(b)...)
		origSecret := append([]byte{}, full(secret)...)
		inputChanged := func() bool { return !bytes.Equal(full(b), orig) || !bytes.Equal(full(secret), origSecret) }
		var out []string
		flag := func(name string, bad bool) {
			v := "0"
			if bad {
				v = "1"
			}
			out = append(out, name+"="+v)
		}
		p, err := radius.Parse(b, secret)
		flag("parse-writes-input", inputChanged())
		radius.IsAuthenticRequest(b, secret)
		radius.IsAuthenticResponse(b, b, secret)
		// (request and response in separate buffers too, and every request code that is hashed)
		predBad := false
		if len(b) >= 20 {
			for _, c := range []byte{4, 40, 43, 2} {
				b2 := unhx(args[0])
				b2[0] = c
				o2 := append([]byte{}, full(b2)...)
				radius.IsAuthenticRequest(b2, secret)
				radius.IsAuthenticResponse(b2, b, secret)
				if !bytes.Equal(full(b2), o2) {
					predBad = true
				}
			}
		}
		// … and give the same answer when asked again: an accounting-type request signed as RFC 2866 §3 says is
		// authentic every time (and an Encode in between changes nothing)
		if len(b) >= 20 && len(b) <= 4096 && len(secret) > 0 {
			for _, c := range []byte{4, 40, 43} {
				b2 := unhx(args[0])
				b2[0] = c
				copy(b2[4:20], make([]byte, 16))
				copy(b2[4:20], md5sum(b2, secret))
				r1 := radius.IsAuthenticRequest(b2, secret)
				(&radius.Packet{Code: radius.Code(c), Secret: secret}).Encode()
				r2 := radius.IsAuthenticRequest(b2, secret)
				r3 := radius.IsAuthenticRequest(b2, secret)
				if !r1 || !r2 || !r3 {
					predBad = true
				}
			}
		}
		flag("predicates-write-input", predBad || inputChanged())
		// the exported ParseAttributes must not alias its input either
		if len(b) > 20 {
			region := append([]byte{}, b[20:]...)
			if as, err := radius.ParseAttributes(region); err == nil {
				before := showAttributes(as)
				for i := range region {
					region[i] ^= 0xff
				}
				aliased := showAttributes(as) != before
				// … and the other way round: appending to a value (also an EMPTY one) stays inside the value's own
				// allocation — its capacity must not reach into the buffer it was parsed from
				regionWas := append([]byte{}, region...)
				for _, a := range as {
					v := a.Attribute
					if v == nil {
						continue
					}
					ext := v[:cap(v)]
					for j := len(v); j < len(ext); j++ {
						ext[j] ^= 0xff
					}
				}
				if !bytes.Equal(region, regionWas) {
					aliased = true
				}
				flag("parseattrs-result-aliases-buffer", aliased)
			} else {
				flag("parseattrs-result-aliases-buffer", false)
			}
		} else {
			flag("parseattrs-result-aliases-buffer", false)
		}
		if err != nil {
			return strings.Join(out, " ") + " unparsed"
		}
		// the parsed packet must not alias the buffer
		s0 := snapshot(p)
		for i := range b {
			b[i] ^= 0xff
		}
		pAliased := snapshot(p) != s0
		{
			bWas := append([]byte{}, b[:cap(b)]...)
			for _, a := range p.Attributes {
				if v := a.Attribute; v != nil {
					ext := v[:cap(v)]
					for j := len(v); j < len(ext); j++ {
						ext[j] ^= 0xff
					}
				}
			}
			if !bytes.Equal(b[:cap(b)], bWas) {
				pAliased = true
				copy(b[:cap(b)], bWas)
			}
		}
		flag("parsed-packet-aliases-buffer", pAliased)
		for i := range b {
			b[i] ^= 0xff
		}
		// MarshalBinary / Encode leave the packet unchanged and return fresh buffers
		w1, e1 := p.MarshalBinary()
		w2, e2 := p.Encode()
		flag("encode-mutates-packet", snapshot(p) != s0)
		for i := range w1 {
			w1[i] ^= 0xff
		}
		for i := range w2 {
			w2[i] ^= 0xff
		}
		flag("encoded-buffer-aliases-packet", snapshot(p) != s0)
		w3, e3 := p.MarshalBinary()
		for i := range w1 {
			w1[i] ^= 0xff
		}
		flag("marshal-not-repeatable", (e1 == nil) != (e3 == nil) || (e1 == nil && !bytes.Equal(w1, w3)))
		_ = e2
		// list Get / Lookup and every typed decoder on every attribute
		bad := false
		aliased := false
		for _, avp := range p.Attributes {
			a := avp.Attribute
			snap := snapshot(p)
			p.Get(avp.Type)
			p.Lookup(avp.Type)
			var res [][]byte
			if v, err := radius.IPAddr(a); err == nil {
				res = append(res, v)
			}
			if v, err := radius.IPv6Addr(a); err == nil {
				res = append(res, v)
			}
			if v, err := radius.IFID(a); err == nil {
				res = append(res, v)
			}
			res = append(res, radius.Bytes(a))
			if _, v, err := radius.VendorSpecific(a); err == nil {
				res = append(res, v)
			}
			if _, v, err := radius.TLV(a); err == nil {
				res = append(res, v)
			}
			if v, err := radius.IPv6Prefix(a); err == nil {
				res = append(res, v.IP, v.Mask)
			}
			if v, err := radius.UserPassword(a, p.Secret, p.Authenticator[:]); err == nil {
				res = append(res, v)
			}
			if v, s, err := radius.TunnelPassword(a, p.Secret, p.Authenticator[:]); err == nil {
				res = append(res, v, s)
			}
			radius.Integer(a)
			radius.Integer64(a)
			radius.Short(a)
			radius.Date(a)
			str := radius.String(a)
			strWas := string(append([]byte{}, str...))
			if snapshot(p) != snap {
				bad = true
			}
			// a string result is a value: editing the attribute in place afterwards does not change it
			for i := range a {
				a[i] ^= 0xff
			}
			if str != strWas {
				aliased = true
			}
			for i := range a {
				a[i] ^= 0xff
			}
			for _, r := range res {
				for i := range r {
					r[i] ^= 0xff
				}
			}
			if snapshot(p) != snap {
				aliased = true
				for _, r := range res {
					for i := range r {
						r[i] ^= 0xff
					}
				}
			}
		}
		flag("decoders-mutate-packet", bad)
		flag("decoder-results-alias-packet", aliased)
		snap := snapshot(p)
		// (ONE Config value for the whole process, as a program has: it is configuration, dumping does not write to it)
		debug.Dump(io.Discard, sharedDumpConfig, p)
		d1 := debug.DumpString(sharedDumpConfig, p)
		d2 := debug.DumpString(sharedDumpConfig, p)
		for _, wd := range wildDictionaries() {
			if debug.DumpString(&debug.Config{Dictionary: wd}, p) != debug.DumpString(&debug.Config{Dictionary: wd}, p) {
				d2 = d1 + "?"
			}
		}
		// the request flavour of the dumper, an empty dictionary, a packet without attributes
		req := &radius.Request{Packet: p, LocalAddr: &labAddr{"local"}, RemoteAddr: &labAddr{"remote"}}
		if debug.DumpRequestString(&debug.Config{Dictionary: debug.IncludedDictionary}, req) != debug.DumpRequestString(&debug.Config{Dictionary: debug.IncludedDictionary}, req) {
			d2 = d1 + "?"
		}
		debug.DumpRequest(io.Discard, &debug.Config{Dictionary: &dictionary.Dictionary{}}, req)
		debug.DumpString(&debug.Config{Dictionary: &dictionary.Dictionary{}}, &radius.Packet{Code: p.Code})
		flag("dump-mutates-packet", snapshot(p) != snap)
		flag("dump-not-repeatable", d1 != d2)
		flag("input-changed-at-end", inputChanged())
		return strings.Join(out, " ")
	case "pureencode":
		// a packet built by hand (attribute types outside 0..255 included): MarshalBinary / Encode /
		// AttributesEncodedLen are observers — the packet and every alias of its attribute list stay as they were
		p := mkPacket(args[0], args[1], args[2], args[3], args[4])
		view := p.Attributes[:len(p.Attributes):len(p.Attributes)]
		s0, v0 := snapshot(p), showAttributes(view)
		var out []string
		flag := func(name string, bad bool) {
			v := "0"
			if bad {
				v = "1"
			}
			out = append(out, name+"="+v)
		}
		radius.AttributesEncodedLen(p.Attributes)
		flag("encodedlen-mutates-packet", snapshot(p) != s0 || showAttributes(view) != v0)
		w1, e1 := p.MarshalBinary()
		flag("marshal-mutates-packet", snapshot(p) != s0 || showAttributes(view) != v0)
		w2, e2 := p.Encode()
		flag("encode-mutates-packet", snapshot(p) != s0 || showAttributes(view) != v0)
		w3, e3 := p.MarshalBinary()
		flag("marshal-not-repeatable", (e1 == nil) != (e3 == nil) || !bytes.Equal(w1, w3))
		w4, e4 := p.Encode()
		flag("encode-not-repeatable", (e2 == nil) != (e4 == nil) || !bytes.Equal(w2, w4))
		for _, w := range [][]byte{w1, w2, w3, w4} {
			for i := range w {
				w[i] ^= 0xff
			}
		}
		flag("encoded-buffer-aliases-packet", snapshot(p) != s0 || showAttributes(view) != v0)
		return strings.Join(out, " ")
	}
	return "UNKNOWN-OP"
}

func (g *Gen) packetFor(e *helperEntry, hostile bool) []avp {
	as := g.priorPacket(e, hostile)
	// make sure the attribute itself is present a few times, with plausible encodings
	for k := g.Pick(1, 1, 2, 3); k > 0; k-- {
		var v []byte
		switch e.Kind {
		case "integer":
			v = g.RandBytes(4)
			if e.HasTag {
				v[0] = byte(g.Pick(0, 1, 5, 0x1f, 0x20, 0xff))
			}
		case "integer64", "ifid":
			v = g.RandBytes(8)
		case "short":
			v = g.RandBytes(2)
		case "byte":
			v = g.RandBytes(1)
		case "ipaddr", "date":
			v = g.RandBytes(4)
		case "ipv6addr":
			v = g.RandBytes(16)
		case "ipv6prefix":
			pl := g.Intn(129)
			v = append([]byte{0, byte(pl)}, net.CIDRMask(pl, 128)...)
		default:
			v = g.RandBytes(g.Pick(1, 3, 6, 8, 16, 18, 24, 32, 34))
			if e.HasTag && g.Bool() {
				v[0] = byte(g.Intn(0x20))
			}
			if e.Encrypt == 2 && len(v) >= 2 {
				if e.HasTag {
					if len(v) >= 3 {
						v[1] |= 0x80
					}
				} else {
					v[0] |= 0x80
				}
			}
		}
		if hostile && g.Chance(1, 3) {
			v = g.RandBytes(g.Pick(0, 1, 2, 3, 5, 7, 9, 15, 17, 19, 33, 35, 253))
		}
		if e.VendorID == 0 {
			as = append(as, avp{e.Typ, v})
		} else if len(v) > 0 && len(v) <= 247 {
			x := make([]byte, 4, 6+len(v))
			x[0], x[1], x[2], x[3] = byte(e.VendorID>>24), byte(e.VendorID>>16), byte(e.VendorID>>8), byte(e.VendorID)
			x = append(x, byte(e.VendorType), byte(len(v)+2))
			x = append(x, v...)
			as = append(as, avp{26, x})
		}
	}
	return as
}

func genC13(g *Gen, tier string, emit func(op string, args ...string)) {
	per := 12
	n := 4000
	if tier == "thorough" {
		per, n = 200, 60000
	}
	for _, e := range registry {
		for i := 0; i < per; i++ {
			emit("purehelper", descOf(e), showAVPs(g.packetFor(e, i%3 == 0)), hx(g.RandBytes(g.Pick(1, 6))), hx(g.RandBytes(16)))
		}
	}
	for i := 0; i < n; i++ {
		b := g.wireImage()
		if g.Chance(1, 2) {
			// well-formed packet with attributes that the typed decoders and the dumper accept
			p := &radius.Packet{Code: radius.Code(g.Pick(1, 2, 4, 5)), Identifier: byte(g.Intn(256)), Secret: []byte("s")}
			copy(p.Authenticator[:], g.RandBytes(16))
			for k := g.Range(1, 8); k > 0; k-- {
				t := g.Pick(1, 2, 4, 5, 6, 8, 11, 18, 26, 30, 44, 55, 69, 79, 95, 96, 97, 168)
				v := g.RandBytes(g.Pick(0, 1, 4, 6, 8, 16, 18, 34))
				if g.Chance(1, 4) && len(v) > 0 {
					// text with a C-string terminator / trailing NULs, leading NULs
					for j := len(v) - g.Range(1, len(v)); j < len(v); j++ {
						v[j] = 0
					}
					if g.Chance(1, 3) {
						v[0] = 0
					}
				}
				p.Add(radius.Type(t), v)
			}
			if w, err := p.MarshalBinary(); err == nil {
				b = w
			}
		}
		emit("purecore", hx(b), hx(g.RandBytes(g.Pick(0, 1, 8))))
	}
	// hand-built packets, out-of-range attribute types in every position
	for i := 0; i < n/4; i++ {
		var as []avp
		for k := g.Range(1, 6); k > 0; k-- {
			t := g.Pick(1, 2, 26, 255, 0, -1, 256, 300, 511, 65536+1, 1<<32+5)
			as = append(as, avp{t, g.RandBytes(g.Pick(0, 1, 4, 18, 253, 254))})
		}
		auth := g.RandBytes(16)
		if g.Chance(1, 4) {
			auth = make([]byte, 16) // a packet built by hand has no Request Authenticator yet
		}
		emit("pureencode", itoa(g.Pick(1, 2, 4, 5, 11, 12, 40, 300, -1)), itoa(g.Intn(256)), hx(auth), hx(g.RandBytes(g.Pick(0, 1, 8))), showAVPs(as))
	}
}

var sharedDumpConfig = &debug.Config{Dictionary: debug.IncludedDictionary}

// wildDictionaries: three dictionaries that together give every attribute number 0..255 every attribute
// type, with and without has_tag / encrypt / concat / size flags and with VALUEs.
var wildDicts []*dictionary.Dictionary

func wildDictionaries() []*dictionary.Dictionary {
	if wildDicts != nil {
		return wildDicts
	}
	for shift := 0; shift < 3; shift++ {
		d := &dictionary.Dictionary{}
		for n := 0; n < 256; n++ {
			t := dictionary.AttributeType(1 + (n+shift*6)%17)
			a := &dictionary.Attribute{Name: "Wild-" + itoa(shift) + "-" + itoa(n), OID: dictionary.OID{n}, Type: t}
			switch (n/17 + shift) % 6 {
			case 1:
				a.FlagHasTag = dictionary.BoolFlag{Valid: true, Bool: true}
			case 2:
				a.FlagEncrypt = dictionary.IntFlag{Valid: true, Int: 1}
			case 3:
				a.FlagEncrypt = dictionary.IntFlag{Valid: true, Int: 2}
				a.FlagHasTag = dictionary.BoolFlag{Valid: true, Bool: true}
			case 4:
				a.FlagConcat = dictionary.BoolFlag{Valid: true, Bool: true}
			case 5:
				a.Size = dictionary.IntFlag{Valid: true, Int: 4}
			}
			d.Attributes = append(d.Attributes, a)
			d.Values = append(d.Values, &dictionary.Value{Attribute: a.Name, Name: "V0", Number: 0}, &dictionary.Value{Attribute: a.Name, Name: "V1", Number: 1},
				&dictionary.Value{Attribute: a.Name, Name: "Also-1", Number: 1})
		}
		wildDicts = append(wildDicts, d)
	}
	return wildDicts
}

// ---------- C02: untrusted bytes never crash or hang the decode surface ----------

func evalC02(op string, args []string) string {
	switch op {
	case "datagram":
		b := unhx(args[0])
		secret := unhx(args[1])
		other := unhx(args[2])
		radius.IsAuthenticRequest(b, secret)
		radius.IsAuthenticResponse(b, other, secret)
		radius.IsAuthenticResponse(other, b, secret)
		radius.ParseAttributes(b)
		if len(b) > 20 {
			radius.ParseAttributes(b[20:])
		}
		p, err := radius.Parse(b, secret)
		if err != nil {
			return "ok parse=err"
		}
		q := &radius.Packet{Secret: secret}
		n := 0
		for _, e := range registry {
			for _, f := range helperReaders(e) {
				f(p, q)
				n++
			}
			if e.Str != nil {
				_, v, _ := e.Lookup(p, q)
				e.Str(v.N)
			}
		}
		for _, avp := range p.Attributes {
			a := avp.Attribute
			radius.Integer(a)
			radius.Integer64(a)
			radius.Short(a)
			radius.IPAddr(a)
			radius.IPv6Addr(a)
			radius.IFID(a)
			radius.Date(a)
			radius.Bytes(a)
			_ = radius.String(a)
			radius.VendorSpecific(a)
			radius.TLV(a)
			radius.IPv6Prefix(a)
			radius.UserPassword(a, secret, p.Authenticator[:])
			radius.TunnelPassword(a, secret, p.Authenticator[:])
			radius.UserPassword(a, secret, other)
			radius.TunnelPassword(a, secret, other)
		}
		debug.DumpString(&debug.Config{Dictionary: debug.IncludedDictionary}, p)
		// the dumper is driven by whatever dictionary the caller configures: one that declares every
		// attribute number, with every type and flag combination spread over them
		for _, d := range wildDictionaries() {
			debug.DumpString(&debug.Config{Dictionary: d}, p)
			debug.Dump(io.Discard, &debug.Config{Dictionary: d}, p)
		}
		p.Encode()
		p.MarshalBinary()
		return "ok parse=ok"
	case "tpraw":
		// Tunnel-Password / User-Password de-obfuscation on a crafted value, directly and through the
		// generated rfc2868 getter (tag octet 0 in front)
		a, sec, ra := unhx(args[0]), unhx(args[1]), unhx(args[2])
		radius.TunnelPassword(a, sec, ra)
		radius.UserPassword(a, sec, ra)
		if e := lookupHelper("layeh.com/radius/rfc2868.TunnelPassword"); e != nil && len(ra) == 16 && len(a) < 250 {
			p := &radius.Packet{Code: 2, Secret: sec}
			copy(p.Authenticator[:], ra)
			p.Add(radius.Type(e.Typ), append([]byte{0}, a...))
			p.Add(radius.Type(e.Typ), append([]byte{}, a...))
			for _, n := range readerOrder {
				if f, ok := helperReaders(e)[n]; ok {
					f(p, p)
				}
			}
		}
		return "ok"
	case "getter":
		name := strings.SplitN(args[0], "|", 2)[0]
		e := lookupHelper(name)
		if e == nil || descOf(e) != args[0] {
			return "BAD-CASE"
		}
		auth := unhx(args[3])
		if len(auth) != 16 {
			return "BAD-CASE"
		}
		p := &radius.Packet{Code: 1, Secret: unhx(args[2])}
		copy(p.Authenticator[:], auth)
		p.Attributes = toAttributes(parseAVPs(args[1]))
		// through the wire, as a server would see it
		w, err := p.MarshalBinary()
		if err != nil {
			return "BAD-CASE"
		}
		pp, err := radius.Parse(w, p.Secret)
		if err != nil {
			return "ok unparsable"
		}
		for _, n := range readerOrder {
			if f, ok := helperReaders(e)[n]; ok {
				f(pp, pp)
			}
		}
		return "ok"
	}
	return "UNKNOWN-OP"
}

func genC02(g *Gen, tier string, emit func(op string, args ...string)) {
	n := 3000
	per := 40
	if tier == "thorough" {
		n, per = 40000, 1500
	}
	for i := 0; i < n; i++ {
		var b []byte
		switch g.Intn(4) {
		case 0:
			b = g.Bytes(g.Pick(0, 1, 4, 19, 20, 21, 22, 23, 30, 64, 300, 4096, 4097))
			if len(b) >= 4 && g.Chance(3, 4) {
				b[2], b[3] = byte(len(b)>>8), byte(len(b))
			}
		default:
			b = g.wireImage()
		}
		emit("datagram", hx(b), hx(g.RandBytes(g.Pick(0, 1, 8))), hx(g.Bytes(g.Pick(0, 16, 19, 20, 40))))
	}
	// every value of the Code octet on a well-formed datagram (the decode surface prints and switches on it)
	for c := 0; c < 256; c++ {
		b := make([]byte, 20, 32)
		b[0], b[1] = byte(c), byte(g.U64())
		copy(b[4:], g.RandBytes(16))
		if c%2 == 1 {
			b = append(b, 1, 5, 'b', 'o', 'b')
		}
		b[2], b[3] = byte(len(b)>>8), byte(len(b))
		emit("datagram", hx(b), hx(g.RandBytes(g.Pick(1, 8))), hx(g.Bytes(g.Pick(0, 20))))
	}
	// text values: well-formed packets whose text attributes carry multi-octet UTF-8 (octet count and rune count
	// differ), of every length class up to the attribute limit, whole and cut in the middle of a character, and
	// octets that are not UTF-8 at all - whatever the dumper and the getters slice, pad or elide is counted in one unit
	for _, unit := range []string{"\u00e9", "\u65e5", "\U0001F600", "\ufffd", "a\u0301", "\u65e5a", "\xff", "\xe6\x97", "\u2028"} {
		for _, total := range []int{1, 2, 3, 4, 15, 16, 17, 31, 32, 33, 63, 64, 65, 66, 96, 100, 120, 127, 128, 129, 200, 250, 252, 253} {
			v := []byte(strings.Repeat(unit, total/len(unit)+1))[:total] // (cuts the last character when total is not a multiple)
			typ := byte(g.Pick(1, 18, 11, 32, 30, 31, 24, 79))
			b := make([]byte, 20, 20+2+len(v)+8)
			b[0], b[1] = byte(g.Pick(1, 2, 4, 11)), byte(g.U64())
			copy(b[4:], g.RandBytes(16))
			b = append(b, typ, byte(2+len(v)))
			b = append(b, v...)
			if g.Bool() {
				b = append(b, 18, 5, 0xe6, 0x97, 0xa5)
			}
			b[2], b[3] = byte(len(b)>>8), byte(len(b))
			emit("datagram", hx(b), hx(g.RandBytes(g.Pick(1, 8))), hx(g.Bytes(g.Pick(0, 20))))
		}
	}
	// de-obfuscation with an exactly chosen decrypted length octet (needs the key stream, so it is crafted here)
	for k := 1; k <= 15; k++ {
		for _, want := range []int{16*k - 1, 16 * k, 16*k + 1, 255} {
			sec, ra := g.RandBytes(g.Pick(1, 8)), g.RandBytes(16)
			a := g.RandBytes(2 + 16*k)
			a[0] |= 0x80
			b1 := md5sum(sec, ra, a[:2])
			a[2] = byte(want) ^ b1[0]
			emit("tpraw", hx(a), hx(sec), hx(ra))
		}
	}
	// every getter on packets whose attributes are adversarial for the attribute's declared type
	for _, e := range registry {
		for i := 0; i < per; i++ {
			emit("getter", descOf(e), showAVPs(g.packetFor(e, true)), hx(g.RandBytes(g.Pick(1, 6))), hx(g.RandBytes(16)))
		}
	}
	if tier == "thorough" {
		// all datagrams of 20..22 bytes over a 3-symbol tail alphabet
		alpha := []byte{0, 2, 255}
		for l := 20; l <= 23; l++ {
			var rec func(tail []byte)
			rec = func(tail []byte) {
				if len(tail) == l-20 {
					b := make([]byte, 20, l)
					b[0], b[3] = 1, byte(l)
					emit("datagram", hx(append(b, tail...)), "73", "-")
					return
				}
				for _, a := range alpha {
					rec(append(append([]byte{}, tail...), a))
				}
			}
			rec(nil)
		}
	}
}
