package main

import (
	"encoding/binary"
	"encoding/json"
	"fmt"
	"os"
	"sort"
	"strings"

	"layeh.com/radius"
)

// Facts: finite tables and thresholds extracted by RUNNING the code over the whole finite domain.
// They are written as Lean literals (RV/Facts/Generated.lean); RV/Facts/Tie.lean proves, in the
// kernel, that they equal the constants and tables the model is built from.  Every fact also
// carries protocol case lines so that a differing fact can be replayed under the property oracle.
type factSet struct {
	nats   map[string]int
	lists  map[string][]int
	lists2 map[string][][]int
	cases  map[string]map[string]string
	order  []string
}

func (f *factSet) nat(name string, v int) {
	f.nats[name] = v
	f.order = append(f.order, name)
}

func (f *factSet) list(name string, v []int) {
	f.lists[name] = v
	f.order = append(f.order, name)
}

func (f *factSet) list2(name string, v [][]int) {
	f.lists2[name] = v
	f.order = append(f.order, name)
}

func (f *factSet) addCase(fact string, idx int, pid, op string, args ...string) {
	if f.cases[fact] == nil {
		f.cases[fact] = map[string]string{}
	}
	f.cases[fact][itoa(idx)] = "fact-" + fact + "-" + itoa(idx) + "\t" + pid + "\t" + op + "\t" + strings.Join(args, "\t")
}

var factProbes []func(f *factSet)

func probe(leanOut, jsonOut string) {
	f := &factSet{nats: map[string]int{}, lists: map[string][]int{}, lists2: map[string][][]int{}, cases: map[string]map[string]string{}}
	for _, p := range factProbes {
		// a probe that panics on this tree leaves its facts out: only the ties that use them stop
		// building (and the property they belong to reports it); the other properties are unaffected
		func() {
			defer func() {
				if r := recover(); r != nil {
					fmt.Fprintf(os.Stderr, "probe panicked: %v\n", r)
				}
			}()
			p(f)
		}()
	}
	var b strings.Builder
	b.WriteString("/- REGENERATED on every run by `vh probe` from /repo's working tree.  Do not edit. -/\nnamespace RV.Facts.Generated\n\n")
	for _, name := range f.order {
		if v, ok := f.nats[name]; ok {
			fmt.Fprintf(&b, "def %s : Nat := %d\n", name, v)
		} else if ll, ok := f.lists2[name]; ok {
			rows := make([]string, len(ll))
			for i, l := range ll {
				parts := make([]string, len(l))
				for j, x := range l {
					parts[j] = itoa(x)
				}
				rows[i] = "[" + strings.Join(parts, ", ") + "]"
			}
			fmt.Fprintf(&b, "def %s : List (List Nat) := [%s]\n", name, strings.Join(rows, ",\n  "))
		} else {
			l := f.lists[name]
			parts := make([]string, len(l))
			for i, x := range l {
				parts[i] = itoa(x)
			}
			fmt.Fprintf(&b, "def %s : List Nat := [%s]\n", name, strings.Join(parts, ", "))
		}
	}
	b.WriteString("\nend RV.Facts.Generated\n")
	if err := os.WriteFile(leanOut, []byte(b.String()), 0o644); err != nil {
		panic(err)
	}
	names := append([]string{}, f.order...)
	sort.Strings(names)
	j, _ := json.MarshalIndent(map[string]interface{}{"nats": f.nats, "lists": f.lists, "cases": f.cases}, "", " ")
	if err := os.WriteFile(jsonOut, j, 0o644); err != nil {
		panic(err)
	}
}

// region of n bytes made of empty attributes (well-formed iff n is even)
func pairRegion(n int) []byte {
	b := make([]byte, n)
	for i := 0; i+1 < n; i += 2 {
		b[i], b[i+1] = 1, 2
	}
	return b
}

func probeImage(lengthField, bufLen int) []byte {
	b := make([]byte, 20, 20+bufLen)
	b[0] = 1
	binary.BigEndian.PutUint16(b[2:4], uint16(lengthField))
	if bufLen > 20 {
		b = append(b, pairRegion(bufLen-20)...)
	} else {
		b = b[:bufLen]
	}
	return b
}

func parses(b []byte) bool {
	defer func() { recover() }()
	_, err := radius.Parse(b, nil)
	return err == nil
}

func init() {
	factProbes = append(factProbes, func(f *factSet) {
		// MaxPacketLength as exported
		f.nat("maxPacketLengthConst", radius.MaxPacketLength)
		// smallest buffer Parse accepts (Length = buffer size)
		minBuf := -1
		for n := 0; n <= 64 && minBuf < 0; n++ {
			if parses(probeImage(n, n)) {
				minBuf = n
			}
		}
		f.nat("parseMinBuf", minBuf+1) // encoded +1 so that "none" is 0
		f.addCase("parseMinBuf", 0, "C01", "parse", hx(probeImage(19, 19)))
		f.addCase("parseMinBuf", 1, "C01", "parse", hx(probeImage(20, 20)))
		f.addCase("parseMinBuf", 2, "C01", "parse", hx(probeImage(18, 18)))
		// smallest / largest accepted Length field with a large enough buffer and a well-formed region
		minL, maxL := -1, -1
		for l := 0; l <= 8192; l += 2 {
			buf := l
			if buf < 64 {
				buf = 64
			}
			if parses(probeImage(l, buf)) {
				if minL < 0 {
					minL = l
				}
				maxL = l
			}
		}
		f.nat("lenFieldMin", minL+1)
		f.nat("lenFieldMax", maxL+1)
		f.addCase("lenFieldMin", 0, "C01", "parse", hx(probeImage(18, 64)))
		f.addCase("lenFieldMin", 1, "C01", "parse", hx(probeImage(20, 64)))
		for i, l := range []int{4094, 4096, 4098, 4100} {
			f.addCase("lenFieldMax", i, "C01", "parse", hx(probeImage(l, l)))
		}
		// Length field may not exceed the buffer: largest accepted (Length - buffer) over small probes
		slack := -1
		for d := 0; d <= 8; d += 2 {
			if parses(probeImage(40+d, 40)) {
				slack = d
			}
		}
		f.nat("lenBeyondBuffer", slack+1)
		f.addCase("lenBeyondBuffer", 0, "C01", "parse", hx(probeImage(42, 40)))
		// smallest attribute length byte ParseAttributes accepts
		minAttr := -1
		for l := 0; l < 8 && minAttr < 0; l++ {
			b := make([]byte, 8)
			b[0], b[1] = 1, byte(l)
			for i := l; i+1 < 8; i += 2 {
				if i >= 2 {
					b[i], b[i+1] = 1, 2
				}
			}
			if _, err := radius.ParseAttributes(b[:l+((8-l)/2)*2]); err == nil && l <= 8 {
				minAttr = l
			}
		}
		f.nat("attrLenMin", minAttr+1)
		f.addCase("attrLenMin", 0, "C01", "parseattrs", "0100")
		f.addCase("attrLenMin", 1, "C01", "parseattrs", "0101")
		f.addCase("attrLenMin", 2, "C01", "parseattrs", "0102")
		f.addCase("attrLenMin", 3, "C01", "parseattrs", "010300")
		// largest attribute value MarshalBinary accepts
		maxVal := -1
		for n := 0; n <= 300; n++ {
			p := &radius.Packet{Code: 1}
			p.Add(1, make(radius.Attribute, n))
			if _, err := p.MarshalBinary(); err == nil {
				maxVal = n
			}
		}
		f.nat("attrValMax", maxVal+1)
		for i, n := range []int{252, 253, 254, 255} {
			f.addCase("attrValMax", i, "C01", "marshal", "1", "0", hx(make([]byte, 16)), showAVPs([]avp{{1, make([]byte, n)}}))
		}
		// largest total size MarshalBinary accepts
		maxTotal := -1
		for total := 4000; total <= 4300; total++ {
			as := sizedAVPs(total - 20)
			if as == nil {
				continue
			}
			p := &radius.Packet{Code: 1, Attributes: toAttributes(as)}
			if w, err := p.MarshalBinary(); err == nil && len(w) == total {
				maxTotal = total
			}
		}
		f.nat("marshalMax", maxTotal+1)
		for i, total := range []int{4095, 4096, 4097, 4098} {
			f.addCase("marshalMax", i, "C01", "marshal", "1", "0", hx(make([]byte, 16)), showAVPs(sizedAVPs(total-20)))
		}
	})
}

// attribute list whose encoding is exactly n bytes (n >= 0, n != 1)
func sizedAVPs(n int) []avp {
	if n == 1 || n < 0 {
		return nil
	}
	var as []avp
	for n > 0 {
		k := n
		if k > 255 {
			k = 255
			if n-k == 1 {
				k = 254
			}
		}
		as = append(as, avp{1, make([]byte, k-2)})
		n -= k
	}
	return as
}
