package main

import (
	"strings"

	"layeh.com/radius/dictionary"
)

// Token-level tables of the dictionary parser, obtained by running the tree's parser on one-line
// dictionaries over finite candidate sets (RV/Facts/TieC16.lean closes them against the model's
// parseType / parseFlags / formatOK / parseValue in the kernel).  The candidate lists are repeated
// in RV/Facts/Expected.lean; the tie also proves that both sides mean the same tokens.

func c16TypeTokens() []string {
	var t []string
	for _, n := range dpTypeNames {
		t = append(t, n, strings.ToUpper(n), strings.ToUpper(n[:1])+n[1:])
	}
	t = append(t, "octets[0]", "octets[1]", "octets[16]", "OCTETS[4]", "Octets[253]", "octets[]", "octets[-1]", "octets[+7]", "octets[x]",
		"octets[2147483647]", "octets[2147483648]", "octets[-2147483648]", "octets[-2147483649]", "octets[4", "octets4]", "octets[4]]", "octets[0x10]", "octets[010]",
		"strin", "strings", "int", "integer32", "uint32", "ipv4addr", "ipv6", "text", "octet", "bytes", "ifid6", "tlvs", "vsa2", "combo-ip", "struct", "bool", "float32", "time_delta", "extended", "long-extended", "evs",
		"\xc5\xbftring", "\xe2\x84\xaaey", "s\xc5\xbf", "\xc5\xbfhort", "\xc5\xbfigned", "v\xc5\xbfa", "\xffstring", "string\x00")
	return t
}

func c16FlagTokens() []string {
	return []string{"encrypt=0", "encrypt=1", "encrypt=2", "encrypt=3", "encrypt=9", "encrypt=-1", "encrypt=+2", "encrypt=", "encrypt=x", "encrypt=1x", "encrypt=2147483647", "encrypt=2147483648",
		"has_tag", "concat", "has_tag,concat", "concat,has_tag", "encrypt=1,has_tag", "has_tag,encrypt=2", "encrypt=2,has_tag,concat", "concat,encrypt=1,has_tag",
		"encrypt=1,encrypt=1", "encrypt=1,encrypt=2", "has_tag,has_tag", "concat,concat", "has_tag,concat,has_tag", "encrypt=1,has_tag,encrypt=x",
		"HAS_TAG", "Concat", "ENCRYPT=1", "Encrypt=1", "has_tag,", ",has_tag", ",", "has_tag,,concat", "has-tag", "hastag", "has_tag=1", "concat=1", "encrypt", "encrypt1", "abc", "virtual", "array",
		"encrypt=x,encrypt=1", "abc,has_tag,has_tag", "has_tag,abc", "encrypt=1,abc"}
}

func c16FormatTokens() []string {
	var t []string
	for a := 0; a < 10; a++ {
		for b := 0; b < 10; b++ {
			t = append(t, "format="+itoa(a)+","+itoa(b))
		}
	}
	t = append(t, "format=1,1,c", "format=1", "format=1,", "format=,1", "format=11,1", "format=1,11", "FORMAT=1,1", "Format=2,2", "format=1;1", "format=1.1", "format:1,1", "format=a,1", "format=1,a",
		"format=4,0,c", "format=\x001,1", "xformat=1,1", "format=1,1x", "format=+1,1")
	return t
}

func c16ValueTokens() []string {
	return []string{"0", "1", "7", "007", "255", "4294967295", "4294967296", "99999999999", "-1", "+1", "0x0", "0x1", "0xff", "0xFF", "0Xff", "0xffffffff", "0x100000000", "0x", "0xg", "x10", "1e3", "1_000", "0b1", "0o7", "010", "0x-1", "1.0", "0x00000000000000ff"}
}

func c16OidTokens() []string {
	return []string{"1", "26", "26.1", "241.26.9.1", "0", "00", "01", "1.02", "255", "256", "4294967296", "9223372036854775807", "9223372036854775808",
		"99999999999999999999", "+5", "-5", "26.+1", "26.-1", "1.", ".1", "1..2", ".", "", "a", "1a", "a1", "1.a", "0x10", "1e3", "1_0", "1,2", "1.2.3.4.5.6.7.8.9.10",
		"\xd9\xa1", "1.\xef\xbc\x91"}
}

func classIndex(c string) int {
	for i, n := range dpClasses {
		if n == c {
			return i + 1
		}
	}
	return 99
}

func parseOneLine(text string) (d *dictionary.Dictionary, class int) {
	defer func() {
		if recover() != nil {
			d, class = nil, 98 // the parser panicked on this line
		}
	}()
	o := newDpOpener()
	p := dictionary.Parser{Opener: o}
	d, err := p.Parse(o.handle("root", []byte(text)))
	if err != nil {
		return nil, classIndex(dpClassify(err).class)
	}
	return d, 0
}

func bytesOf(ss []string) [][]int {
	out := make([][]int, len(ss))
	for i, s := range ss {
		out[i] = []int{}
		for _, b := range []byte(s) {
			out[i] = append(out[i], int(b))
		}
	}
	return out
}

func init() {
	factProbes = append(factProbes, func(f *factSet) {
		// ---- type names: code (0 = refused, else the AttributeType number) and size (0 = none, else size + 2^31 + 1)
		tt := c16TypeTokens()
		var code, size []int
		for i, tok := range tt {
			text := "ATTRIBUTE A 1 " + tok + "\n"
			d, e := parseOneLine(text)
			c, s := 0, 0
			if e == 0 && d != nil && len(d.Attributes) == 1 {
				a := d.Attributes[0]
				c = int(a.Type)
				if a.Size.Valid {
					s = a.Size.Int + (1 << 31) + 1
				}
			} else if e != classIndex("UnknownAttributeType") {
				c = 1000 + e // a refusal of another kind than the model's
			}
			code, size = append(code, c), append(size, s)
			f.addCase("c16TypeCode", i, "C16", "parse", hx([]byte(text)), "0")
			f.addCase("c16TypeSize", i, "C16", "parse", hx([]byte(text)), "0")
		}
		f.list2("c16TypeTokens", bytesOf(tt))
		f.list("c16TypeCode", code)
		f.list("c16TypeSize", size)
		// ---- flags: 0..: error class index (1-based), or 100 + 4*(encrypt + 2^31 + 1 | 0) + 2*has_tag + concat
		ft := c16FlagTokens()
		var fl []int
		for i, tok := range ft {
			text := "ATTRIBUTE A 1 string " + tok + "\n"
			d, e := parseOneLine(text)
			v := e
			if e == 0 && d != nil && len(d.Attributes) == 1 {
				a := d.Attributes[0]
				v = 100
				if a.FlagEncrypt.Valid {
					v += 4 * (a.FlagEncrypt.Int + (1 << 31) + 1)
				}
				if a.FlagHasTag.Valid && a.FlagHasTag.Bool {
					v += 2
				}
				if a.FlagConcat.Valid && a.FlagConcat.Bool {
					v++
				}
				if v < 100 || (a.FlagHasTag.Valid && !a.FlagHasTag.Bool) || (a.FlagConcat.Valid && !a.FlagConcat.Bool) {
					v = 99
				}
			}
			fl = append(fl, v)
			f.addCase("c16Flags", i, "C16", "parse", hx([]byte(text)), "0")
		}
		f.list2("c16FlagTokens", bytesOf(ft))
		f.list("c16Flags", fl)
		// ---- vendor format: error class index, or 100 + 16*type octets + length octets
		vt := c16FormatTokens()
		var vf []int
		for i, tok := range vt {
			text := "VENDOR V 9 " + tok + "\n"
			d, e := parseOneLine(text)
			v := e
			if e == 0 && d != nil && len(d.Vendors) == 1 {
				v = 100 + 16*d.Vendors[0].GetTypeOctets() + d.Vendors[0].GetLengthOctets()
				if d.Vendors[0].TypeOctets == nil || d.Vendors[0].LengthOctets == nil {
					v = 99
				}
			}
			vf = append(vf, v)
			f.addCase("c16Format", i, "C16", "parse", hx([]byte(text)), "0")
		}
		f.list2("c16FormatTokens", bytesOf(vt))
		f.list("c16Format", vf)
		// ---- attribute numbers (OIDs): [0] = refused as invalid OID, [k] = another refusal, else 1 followed by two fields per component (floor(c/2^32)+2^31, c mod 2^32)
		ot := c16OidTokens()
		var ov [][]int
		for i, tok := range ot {
			if tok == "" {
				ov = append(ov, []int{0})
				f.addCase("c16Oid", i, "C16", "parse", hx([]byte("ATTRIBUTE A  string\n")), "0")
				continue
			}
			text := "ATTRIBUTE A " + tok + " string\n"
			d, e := parseOneLine(text)
			row := []int{0}
			if e == 0 && d != nil && len(d.Attributes) == 1 {
				row = []int{1}
				for _, c := range d.Attributes[0].OID {
					// (two fields per component: floor(c / 2^32) + 2^31 and c mod 2^32 — no overflow for any int)
					row = append(row, int(int64(c)>>32)+(1<<31), int(uint64(c)&0xffffffff))
				}
			} else if e != classIndex("InvalidOID") {
				row = []int{e}
			}
			ov = append(ov, row)
			f.addCase("c16Oid", i, "C16", "parse", hx([]byte(text)), "0")
		}
		f.list2("c16OidTokens", bytesOf(ot))
		f.list2("c16Oid", ov)
		// ---- VALUE numbers: 0 = refused (strconv), else number + 1
		nt := c16ValueTokens()
		var nv []int
		for i, tok := range nt {
			text := "ATTRIBUTE A 1 integer\nVALUE A N " + tok + "\n"
			d, e := parseOneLine(text)
			v := 0
			if e == 0 && d != nil && len(d.Values) == 1 {
				v = int(d.Values[0].Number) + 1
			} else if e != classIndex("Strconv") {
				v = 1 << 40
			}
			nv = append(nv, v)
			f.addCase("c16ValueNumber", i, "C16", "parse", hx([]byte(text)), "0")
		}
		f.list2("c16ValueTokens", bytesOf(nt))
		f.list("c16ValueNumber", nv)
	})
}
