// vh — verification harness for layeh/radius.
//
//	vh run  <Cxx> --seed S --tier quick|thorough [--shard i/n]   generate cases, run the real code, print protocol lines
//	vh eval                                                      read case lines on stdin, (re)compute the implementation result
//	vh probe <out.lean> <out.json>                               regenerate the finite-table facts
//
// A protocol line is   id \t prop \t op \t arg… \t => \t result   (see DESIGN.md §2.1).
package main

import (
	"bufio"
	"flag"
	"fmt"
	"hash/fnv"
	"os"
	"runtime/debug"
	"strings"
	"time"
)

// A property's harness: a generator of cases and an evaluator that calls the real code.
type prop struct {
	gen  func(g *Gen, tier string, emit func(op string, args ...string))
	eval func(op string, args []string) string
	// timeout per case (0 = default)
	timeout time.Duration
	// pure: the ops are plain function calls; other library calls are made before each case (history.go)
	pure bool
	// par: the ops are deterministic functions of the case: one case in eight is ALSO evaluated on six
	// goroutines at once, and every one of them must observe what the sequential evaluation observed
	// (a package-level scratch buffer, a pool handed out twice … shows only under concurrent use)
	par func(op string) bool
}

var props = map[string]*prop{}

// badCase is the panic value of the harness's own case-line parsers (a malformed case line): only a panic of
// this type is reported as BAD-CASE - a panic raised by the library, whatever its text, is an observation
type badCase string

var out = bufio.NewWriterSize(os.Stdout, 1<<20)

// safeEval runs eval with recover() and a watchdog.  A panic is the observation "PANIC", a
// watchdog expiry "HANG" (the goroutine is abandoned).
func safeEval(p *prop, op string, args []string) string {
	type res struct{ s string }
	ch := make(chan res, 1)
	go func() {
		defer func() {
			if r := recover(); r != nil {
				if _, ok := r.(badCase); ok {
					ch <- res{"BAD-CASE"} // malformed case line (only arises while shrinking)
					return
				}
				if os.Getenv("VH_TRACE") != "" {
					fmt.Fprintf(os.Stderr, "panic: %v\n%s\n", r, debug.Stack())
				}
				ch <- res{"PANIC"}
			}
		}()
		if p.pure && os.Getenv("VH_NO_HISTORY") == "" {
			pollute(op, args)
		}
		r := p.eval(op, args)
		if p.par != nil && p.par(op) && r != "BAD-CASE" {
			if parPick(op, args) {
				// this case and the last few OTHER cases, all at once: every one must observe what it observed
				// when it ran alone (the same inputs in parallel would hide a shared result buffer)
				type job struct {
					op   string
					args []string
					want string
				}
				jobs := []job{{op, args, r}, {op, args, r}}
				for _, c := range recentCases {
					jobs = append(jobs, job{c.op, c.args, c.r})
				}
				out := make(chan string, len(jobs))
				start := make(chan struct{})
				for _, j := range jobs {
					j := j
					go func() {
						defer func() {
							if recover() != nil {
								out <- "PANIC in parallel evaluation of " + j.op
							}
						}()
						<-start
						if got := p.eval(j.op, j.args); got != j.want {
							out <- "sequential: " + j.want + " parallel: " + got
							return
						}
						out <- ""
					}()
				}
				close(start)
				for range jobs {
					if o := <-out; o != "" && !strings.HasPrefix(r, "PARALLEL-EVALUATION-DIFFERS") {
						r = "PARALLEL-EVALUATION-DIFFERS " + o
					}
				}
			}
			if !strings.HasPrefix(r, "PARALLEL-EVALUATION-DIFFERS") {
				recentCases = append(recentCases, recentCase{op, args, r})
				if len(recentCases) > 5 {
					recentCases = recentCases[1:]
				}
			}
		}
		ch <- res{r}
	}()
	to := p.timeout
	if to == 0 {
		// (pure functions return in micro- or milliseconds; the margin is for a machine so busy that this process
		// is not scheduled for seconds - an endless loop is still an endless loop after eight of them; ./check runs a HANG again, alone, before believing it)
		to = 8 * time.Second
	}
	select {
	case r := <-ch:
		return r.s
	case <-time.After(to):
		return "HANG"
	}
}

type recentCase struct {
	op   string
	args []string
	r    string
}

var recentCases []recentCase

func parPick(op string, args []string) bool {
	h := fnv.New32a()
	h.Write([]byte(op))
	for _, a := range args {
		h.Write([]byte(a))
	}
	return h.Sum32()%8 == 3
}

func emitLine(id, pid, op string, args []string, result string) {
	out.WriteString(id)
	out.WriteByte('\t')
	out.WriteString(pid)
	out.WriteByte('\t')
	out.WriteString(op)
	for _, a := range args {
		out.WriteByte('\t')
		out.WriteString(a)
	}
	out.WriteString("\t=>\t")
	out.WriteString(result)
	out.WriteByte('\n')
}

func main() {
	if len(os.Args) < 2 {
		fmt.Fprintln(os.Stderr, "usage: vh run|eval|probe …")
		os.Exit(2)
	}
	defer out.Flush()
	switch os.Args[1] {
	case "run":
		fs := flag.NewFlagSet("run", flag.ExitOnError)
		seed := fs.Uint64("seed", 1, "seed")
		tier := fs.String("tier", "quick", "tier")
		shard := fs.String("shard", "0/1", "i/n")
		pid := os.Args[2]
		fs.Parse(os.Args[3:])
		p := props[pid]
		if p == nil {
			fmt.Fprintln(os.Stderr, "unknown property", pid)
			os.Exit(2)
		}
		var si, sn int
		fmt.Sscanf(*shard, "%d/%d", &si, &sn)
		if sn <= 0 {
			sn = 1
		}
		g := NewGen(*seed)
		g.shard, g.shards = si, sn
		n := 0
		// A case that ends in HANG / stuck / CRASH costs its watchdog time (seconds).  On a tree where
		// that happens at all it happens in a large share of the cases, and the first few already are
		// the violation: after 12 such outcomes the rest of this shard's cases are skipped.
		slowBad := 0
		skipped := 0
		defer func() {
			// the last line of a shard: how many cases it evaluated and how many it skipped after the cut-off -
			// ./check refuses a shard without this line (a harness that died) and evaluates skipped cases later
			out.WriteString(fmt.Sprintf("END\t%s\t%d\t%d\n", pid, n, skipped))
			out.Flush()
		}()
		p.gen(g, *tier, func(op string, args ...string) {
			idx := n
			n++
			if idx%sn != si {
				return
			}
			if slowBad >= 12 && os.Getenv("VH_NOCUTOFF") == "" {
				skipped++
				return
			}
			id := fmt.Sprintf("%s-%d-%d", pid, *seed, idx)
			r := safeEval(p, op, args)
			if p.timeout > 0 && (strings.Contains(r, "HANG") || strings.Contains(r, "stuck") || strings.Contains(r, "CRASH")) {
				slowBad++
			}
			emitLine(id, pid, op, args, r)
		})
	case "eval":
		sc := bufio.NewScanner(os.Stdin)
		sc.Buffer(make([]byte, 1<<20), 1<<26)
		for sc.Scan() {
			line := sc.Text()
			if line == "" {
				continue
			}
			cols := strings.Split(line, "\t")
			if len(cols) < 3 {
				continue
			}
			args := cols[3:]
			for i, a := range args {
				if a == "=>" {
					args = args[:i]
					break
				}
			}
			p := props[cols[1]]
			if p == nil {
				emitLine(cols[0], cols[1], cols[2], args, "UNKNOWN-PROP")
				continue
			}
			emitLine(cols[0], cols[1], cols[2], args, safeEval(p, cols[2], args))
			out.Flush()
		}
	case "scenario":
		// one server scenario in this process, observations flushed token by token (see c07.go)
		a := os.Args[3:]
		if len(a) == 3 && a[0] == "dups" {
			runDups(atoi(a[1]), os.Stdout)
			return
		}
		if len(a) == 3 && a[0] == "downs" {
			os.Stdout.WriteString(runDowns(atoi(a[1])))
			return
		}
		if len(a) == 3 && a[0] == "finishes" {
			os.Stdout.WriteString(runFinishes(atoi(a[1])))
			return
		}
		if len(a) == 3 && a[0] == "listen" {
			os.Stdout.WriteString(runListen(a[1]))
			return
		}
		if len(a) != 3 || a[2] == "-" {
			os.Stdout.WriteString("BAD-CASE")
			return
		}
		runServerScenario(a[0] == "1", a[1], strings.Split(a[2], ","), os.Stdout)
	case "probe":
		if len(os.Args) != 4 && len(os.Args) != 5 {
			fmt.Fprintln(os.Stderr, "usage: vh probe out.lean out.json [outC18.lean]")
			os.Exit(2)
		}
		probe(os.Args[2], os.Args[3])
		if len(os.Args) == 5 {
			if err := writeC18Facts(os.Args[4]); err != nil {
				fmt.Fprintln(os.Stderr, "C18 facts:", err)
				os.Exit(1)
			}
		}
	default:
		fmt.Fprintln(os.Stderr, "unknown command", os.Args[1])
		os.Exit(2)
	}
}
