package main

// C15 — dictionary include walk: Parser.ParseFile over an in-memory file system (the Opener,
// the canonical result syntax and the body generator live in c16.go).

import (
	"bytes"
	"errors"
	"hash/fnv"
	"io"
	"os"
	"path/filepath"
	"regexp"
	"runtime/debug"
	"sort"
	"strconv"
	"strings"
	"sync"
	"time"

	"layeh.com/radius/dictionary"
)

func init() {
	props["C15"] = &prop{gen: genC15, eval: evalC15, timeout: 20 * time.Second}
}

var c15LongLived dictionary.Parser

func evalC15(op string, args []string) string {
	if op == "walkfs" {
		return evalC15FS(args, false)
	}
	if op == "walkfsdir" {
		return evalC15FS(args, true)
	}
	if op == "walkio" {
		return evalC15IO(args)
	}
	if op != "walk" {
		return "UNKNOWN-OP"
	}
	if len(args) != 3 || args[2] != "0" && args[2] != "1" || args[0] == "" {
		return "BAD-CASE"
	}
	o := newDpOpener()
	if args[0] != "-" {
		for _, e := range strings.Split(args[0], ",") {
			f := strings.Split(e, ":")
			if len(f) != 2 {
				return "BAD-CASE"
			}
			o.add(string(unhx(f[0])), unhx(f[1]))
		}
	}
	root := string(unhx(args[1]))
	p := &dictionary.Parser{Opener: o, IgnoreIdenticalAttributes: args[2] == "1"}
	// one case in three is parsed by a Parser value that lives as long as this process and has seen every earlier
	// such case - the hundreds of walks before this one, most of them refused somewhere, must not show
	if h := fnv.New32a(); true {
		h.Write([]byte(args[1] + args[0]))
		if h.Sum32()%3 == 0 {
			c15LongLived.Opener, c15LongLived.IgnoreIdenticalAttributes = o, args[2] == "1"
			p = &c15LongLived
		}
	}
	// history: a Parser value is reusable, and what an earlier walk did (completed or refused at any
	// depth) must not show in a later one.  For every second case the same Parser first walks from every
	// file of the file system as root (results ignored); the observed walk starts with a clean trace.
	if h := fnv.New32a(); len(o.files) <= 6 {
		h.Write([]byte(args[0] + args[1]))
		if h.Sum32()%2 == 0 {
			names := make([]string, 0, len(o.files))
			for n := range o.files {
				names = append(names, n)
			}
			sort.Strings(names)
			for _, n := range names {
				func() {
					defer func() { recover() }()
					p.ParseFile(n)
				}()
				if o.exceeded {
					return "DEPTH-EXCEEDED"
				}
			}
			if o.nopen != 0 {
				return "err Other - 0 - handles-left-open-by-earlier-walks"
			}
			o.events = nil
		}
	}
	d, err := p.ParseFile(root)
	if o.exceeded {
		return "DEPTH-EXCEEDED"
	}
	// per HANDLE (the trace names files, not handles): a handle that was opened and never closed
	if o.nopen != 0 {
		return "err HandleLeak - " + itoa(o.nopen) + " - " + o.trace()
	}
	if err != nil {
		f := dpClassify(err)
		file, detail := "-", "-"
		if f.hasFile {
			file = hx([]byte(f.file))
		}
		if f.hasDetail {
			detail = hx([]byte(f.detail))
		}
		return "err " + f.class + " " + file + " " + itoa(f.line) + " " + detail + " " + o.trace()
	}
	if d == nil {
		return "err Other - 0 - " + o.trace()
	}
	return "ok " + dpShowDict(d) + " " + o.trace()
}

// ---- walkfs: the same walk through the REAL file system and dictionary.FileSystemOpener ----
//
// The files are written into a fresh directory; every `$INCLUDE name` argument in the texts is re-spelled in
// one of several equivalent ways (plain, ./name, <dir>/name, <dir>//name, <dir>/./name, sub/../name) — all
// denote the same file, so the outcome must be the one of the plain spelling (which is what the model is run
// on).  File names in the result (ParseError.File, RecursiveIncludeError.Filename, the open/close trace) are
// mapped back to the plain names.
type fsOpener struct {
	inner  *dictionary.FileSystemOpener
	dir    string
	events []string
	// handles open right now; beyond 200 the opener refuses (unbounded recursion would otherwise run until the
	// process has no descriptors or no stack left) and the observation is DEPTH-EXCEEDED
	nopen    int
	exceeded bool
}

func (o *fsOpener) plain(name string) string {
	c := filepath.Clean(name)
	if r, err := filepath.Rel(o.dir, c); err == nil && !strings.HasPrefix(r, "..") {
		return r
	}
	return c
}

type fsFile struct {
	dictionary.File
	op     *fsOpener
	closed bool
}

func (f *fsFile) Close() error {
	f.op.events = append(f.op.events, "c"+hx([]byte(f.op.plain(f.File.Name()))))
	if !f.closed {
		f.closed = true
		f.op.nopen--
	}
	return f.File.Close()
}

func (o *fsOpener) OpenFile(name string) (dictionary.File, error) {
	if o.nopen >= 200 || len(o.events) > 20000 {
		o.exceeded = true
		return nil, &memOpenError{name}
	}
	f, err := o.inner.OpenFile(name)
	if err != nil {
		// (only names made of plain characters are ever re-spelled; any other name is reported as written)
		if filepath.IsAbs(name) || strings.HasPrefix(name, "./") || strings.HasPrefix(name, "sub/../") {
			if !filepath.IsAbs(name) {
				name = filepath.Join(o.dir, name)
			}
			return nil, &memOpenError{o.plain(name)}
		}
		return nil, &memOpenError{name}
	}
	o.events = append(o.events, "o"+hx([]byte(o.plain(f.Name()))))
	o.nopen++
	return &fsFile{File: f, op: o}, nil
}

var simpleName = regexp.MustCompile(`^[A-Za-z0-9_][A-Za-z0-9_.-]*$`)

// openFds lists the descriptors of this process (Linux); nil if /proc is not there
func openFds() map[string]bool {
	ents, err := os.ReadDir("/proc/self/fd")
	if err != nil {
		return nil
	}
	m := map[string]bool{}
	for _, e := range ents {
		m[e.Name()] = true
	}
	return m
}

var fdMu sync.Mutex

// withDirs: entries are `name:text:flags` (the walkio syntax); flag 1 with an empty text makes the entry a
// DIRECTORY (the only flags allowed here), which FileSystemOpener opens and whose first Read fails
func evalC15FS(args []string, withDirs bool) string {
	if len(args) != 3 || args[2] != "0" && args[2] != "1" || args[0] == "" || args[0] == "-" {
		return "BAD-CASE"
	}
	// descriptors are counted around the call: one case at a time, finalizers (which would close a forgotten
	// *os.File sooner or later) held off
	fdMu.Lock()
	defer fdMu.Unlock()
	defer debug.SetGCPercent(debug.SetGCPercent(-1))
	dir, err := os.MkdirTemp("", "vh-c15-")
	if err != nil {
		return "HARNESS-tmpdir"
	}
	defer os.RemoveAll(dir)
	if d2, err := filepath.EvalSymlinks(dir); err == nil {
		dir = d2
	}
	os.Mkdir(filepath.Join(dir, "sub"), 0o755)
	k := 0
	respell := func(line []byte) []byte {
		f := strings.Fields(string(line))
		if len(f) != 2 || f[0] != "$INCLUDE" || !simpleName.MatchString(f[1]) {
			return line
		}
		k++
		alt := []string{f[1], "./" + f[1], dir + "/" + f[1], dir + "//" + f[1], dir + "/./" + f[1], "sub/../" + f[1], dir + "/sub/../" + f[1]}[(k+len(f[1]))%7]
		// keep everything around the argument (leading blanks, trailing comment …) as it was
		i := bytes.LastIndex(line, []byte(f[1])) // the argument is the last field of the line
		return append(append(append([]byte{}, line[:i]...), alt...), line[i+len(f[1]):]...)
	}
	for _, e := range strings.Split(args[0], ",") {
		f := strings.Split(e, ":")
		if withDirs && len(f) == 3 {
			switch {
			case f[2] == "0":
			case f[2] == "1" && f[1] == "-":
				name := string(unhx(f[0]))
				if !simpleName.MatchString(name) || name == "sub" {
					return "BAD-CASE"
				}
				os.Mkdir(filepath.Join(dir, name), 0o755) // (an existing file of that name wins, as everywhere)
				continue
			default:
				return "BAD-CASE"
			}
			f = f[:2]
		}
		if len(f) != 2 {
			return "BAD-CASE"
		}
		name := string(unhx(f[0]))
		// (a file may live in the subdirectory: its name, as the dictionary texts write it, is then sub/<name>)
		if !simpleName.MatchString(strings.TrimPrefix(name, "sub/")) || name == "sub" {
			return "BAD-CASE"
		}
		var out [][]byte
		for _, line := range bytes.Split(unhx(f[1]), []byte("\n")) {
			out = append(out, respell(line))
		}
		if _, err := os.Stat(filepath.Join(dir, name)); err == nil {
			continue // the first registration of a name wins (as in the in-memory opener)
		}
		if os.WriteFile(filepath.Join(dir, name), bytes.Join(out, []byte("\n")), 0o644) != nil {
			return "HARNESS-write"
		}
	}
	root := string(unhx(args[1]))
	if !simpleName.MatchString(strings.TrimPrefix(root, "sub/")) {
		return "BAD-CASE"
	}
	o := &fsOpener{inner: &dictionary.FileSystemOpener{Root: dir}, dir: dir}
	p := dictionary.Parser{Opener: o, IgnoreIdenticalAttributes: args[2] == "1"}
	before := openFds()
	d, err := p.ParseFile(root)
	if o.exceeded {
		return "DEPTH-EXCEEDED"
	}
	left := 0
	for fd := range openFds() {
		if !before[fd] {
			left++
		}
	}
	trace := "-"
	if len(o.events) > 0 {
		trace = strings.Join(o.events, ",")
	}
	trace += " fds=" + itoa(left)
	// The same walk once more with the FileSystemOpener handed to the parser AS IT IS: the recording opener above
	// wraps every file, so code that looks at the concrete type of a File (*os.File: Stat, os.SameFile, ReadFrom)
	// never meets one there.  The outcome (dictionary, or error class and line) must be the same; a difference is
	// appended to the result, where the driver's model has nothing to match it.
	{
		// (compared: success and the dictionary; else whether it is a ParseError, its line, and whether its cause is a
		// RecursiveIncludeError — the recording opener reports failed opens with an error type of its own)
		summary := func(d *dictionary.Dictionary, err error) string {
			if err != nil {
				pe, ok := err.(*dictionary.ParseError)
				if !ok {
					return "err plain"
				}
				_, rec := pe.Inner.(*dictionary.RecursiveIncludeError)
				if rec {
					return "err ParseError " + itoa(pe.Line) + " recursive"
				}
				return "err ParseError " + itoa(pe.Line)
			}
			if d == nil {
				return "err nil-dictionary"
			}
			return "ok " + dpShowDict(d)
		}
		raw := dictionary.Parser{Opener: &dictionary.FileSystemOpener{Root: dir}, IgnoreIdenticalAttributes: args[2] == "1"}
		d2, err2 := raw.ParseFile(root)
		if a, b := summary(d, err), summary(d2, err2); a != b {
			trace += " UNWRAPPED-OPENER-DIFFERS(" + strings.ReplaceAll(b, " ", "_") + ")"
		}
	}
	if err != nil {
		f := dpClassify(err)
		var pathErr *os.PathError
		if _, isPE := err.(*dictionary.ParseError); withDirs && !isPE && errors.As(err, &pathErr) && pathErr.Op == "read" {
			// the reader's own error, returned as it is (Read on a directory)
			f = dpFailure{class: "Read"}
		}
		file, detail := "-", "-"
		if f.hasFile {
			file = hx([]byte(o.plain(f.file)))
		}
		if f.hasDetail {
			detail = hx([]byte(f.detail))
			if filepath.IsAbs(f.detail) {
				detail = hx([]byte(o.plain(f.detail)))
			}
		}
		return "err " + f.class + " " + file + " " + itoa(f.line) + " " + detail + " " + trace
	}
	if d == nil {
		return "err Other - 0 - " + trace
	}
	return "ok " + dpShowDict(d) + " " + trace
}

// ---------------------------------------------------------------------------------------------

type dpFS struct {
	names []string
	texts [][]byte
}

func (fs *dpFS) add(name string, text []byte) {
	fs.names = append(fs.names, name)
	fs.texts = append(fs.texts, text)
}

func (fs *dpFS) arg() string {
	if len(fs.names) == 0 {
		return "-"
	}
	parts := make([]string, len(fs.names))
	for i := range fs.names {
		parts[i] = hx([]byte(fs.names[i])) + ":" + hx(fs.texts[i])
	}
	return strings.Join(parts, ",")
}

// body styles of the exhaustive include graphs
const (
	bsIncludesOnly = iota
	bsValueBefore
	bsValueAfter
	bsAttrIgn
	bsAttrNoIgn
	bsBogusBefore
	bsBogusBetween
	bsBogusAfter
	bsMissingFirst
	bsMissingLast
	bsDuplicated
	bsBlanksComments
	bsCRLF
	bsNoFinalTerm
	bsVendorBlock
	bsCount
)

// dpGraphFS writes the files of an include graph (targets[i] = ordered include targets of file i)
// in one body style.  Styles that plant something (a fault, a missing include, a repeat, a vendor
// block) plant it in one file; the layout styles apply to every file.
func dpGraphFS(g *Gen, names []string, targets [][]int, style int) (fs *dpFS, ign string) {
	fs, ign = &dpFS{}, "0"
	if style == bsAttrIgn {
		ign = "1"
	}
	// the file that gets the planted element: preferably one reachable from the root (file 0)
	// that has includes
	reach := make([]bool, len(names))
	var visit func(i int)
	visit = func(i int) {
		if reach[i] {
			return
		}
		reach[i] = true
		for _, t := range targets[i] {
			visit(t)
		}
	}
	visit(0)
	var reachable, withInc []int
	for i, t := range targets {
		if reach[i] {
			reachable = append(reachable, i)
			if len(t) > 0 {
				withInc = append(withInc, i)
			}
		}
	}
	victim := reachable[g.Intn(len(reachable))]
	if len(withInc) > 0 && g.Chance(3, 4) {
		victim = withInc[g.Intn(len(withInc))]
	} else if g.Chance(1, 10) {
		victim = g.Intn(len(names))
	}
	for i, name := range names {
		var incs []string
		for _, t := range targets[i] {
			incs = append(incs, "$INCLUDE "+names[t])
		}
		lines := incs
		here := i == victim
		switch style {
		case bsValueBefore:
			lines = append([]string{"VALUE A" + name + " v 1"}, incs...)
		case bsValueAfter:
			lines = append(incs, "VALUE A"+name+" v 1")
		case bsAttrIgn, bsAttrNoIgn:
			lines = append([]string{"ATTRIBUTE N-" + name + " " + itoa(i+1) + " string"}, incs...)
		case bsBogusBefore:
			if here {
				lines = append([]string{"BOGUS"}, incs...)
			}
		case bsBogusBetween:
			if here {
				if len(incs) == 0 {
					lines = []string{"BOGUS"}
				} else {
					lines = append([]string{incs[0], "BOGUS"}, incs[1:]...)
				}
			}
		case bsBogusAfter:
			if here {
				lines = append(incs, "BOGUS")
			}
		case bsMissingFirst:
			if here {
				lines = append([]string{"$INCLUDE zz"}, incs...)
			}
		case bsMissingLast:
			if here {
				lines = append(incs, "$INCLUDE zz")
			}
		case bsDuplicated:
			if here && len(incs) > 0 {
				j := g.Intn(len(incs))
				lines = append(append(append([]string{}, incs[:j+1]...), incs[j]), incs[j+1:]...)
			}
		case bsBlanksComments:
			lines = nil
			for _, inc := range incs {
				for k := g.Intn(3); k > 0; k-- {
					lines = append(lines, []string{"", "# c", "#"}[g.Intn(3)])
				}
				lines = append(lines, inc)
			}
			if g.Bool() {
				lines = append(lines, "# end")
			}
		case bsVendorBlock:
			if here {
				lines = append(append([]string{"VENDOR v 1", "BEGIN-VENDOR v"}, incs...), "END-VENDOR v")
			}
		}
		term := "\n"
		if style == bsCRLF {
			term = "\r\n"
		}
		text := strings.Join(lines, term)
		if len(lines) > 0 && style != bsNoFinalTerm {
			text += term
		}
		fs.add(name, []byte(text))
	}
	return fs, ign
}

// dpDistinctSeqs: every ordered sequence of distinct elements of {0..n-1} (16 for n = 3).
func dpDistinctSeqs(n int) [][]int {
	var out [][]int
	var rec func(cur []int, used int)
	rec = func(cur []int, used int) {
		out = append(out, append([]int(nil), cur...))
		for x := 0; x < n; x++ {
			if used&(1<<uint(x)) == 0 {
				rec(append(cur, x), used|1<<uint(x))
			}
		}
	}
	rec(nil, 0)
	return out
}

// dpHasCycle: does the include graph contain a cycle anywhere (reachable from the root or not)?
func dpHasCycle(targets [][]int) bool {
	state := make([]int, len(targets)) // 0 new, 1 on the path, 2 done
	var dfs func(i int) bool
	dfs = func(i int) bool {
		if state[i] == 1 {
			return true
		}
		if state[i] == 2 {
			return false
		}
		state[i] = 1
		for _, t := range targets[i] {
			if dfs(t) {
				return true
			}
		}
		state[i] = 2
		return false
	}
	for i := range targets {
		if dfs(i) {
			return true
		}
	}
	return false
}

func (g *Gen) dpStyles(k int) []int {
	var out []int
	seen := map[int]bool{}
	for len(out) < k {
		s := g.Intn(bsCount)
		if !seen[s] {
			seen[s] = true
			out = append(out, s)
		}
	}
	return out
}

func dpLinesText(lines ...string) []byte { return []byte(strings.Join(lines, "\n") + "\n") }

func genC15(g *Gen, tier string, emit func(op string, args ...string)) {
	thorough := tier == "thorough"
	nwalk := 0
	// every ioEvery-th file system is also walked with I/O failures planted (op walkio); which files fail,
	// how, and the size of the chunks the reader hands out are derived from a hash of the case, not from g
	ioEvery := 29
	if thorough {
		ioEvery = 5
	}
	walk := func(fs *dpFS, root, ign string) {
		emit("walk", fs.arg(), hx([]byte(root)), ign)
		if (nwalk+1)%ioEvery == 0 {
			flags, chunk := dpHashFlags(fs, root)
			emit("walkio", fs.argIO(flags), hx([]byte(root)), ign, itoa(chunk))
		}
		// every fourth file system also goes through the real file system and FileSystemOpener
		if nwalk++; nwalk%4 == 0 {
			ok := simpleName.MatchString(root)
			for _, n := range fs.names {
				ok = ok && simpleName.MatchString(n) && n != "sub"
			}
			if ok && len(fs.names) > 0 {
				emit("walkfs", fs.arg(), hx([]byte(root)), ign)
				// … once more with one file moved into the subdirectory (every `$INCLUDE` of it re-written to sub/<name>):
				// names are resolved against the opener's Root for the whole walk, wherever the including file lies
				if nwalk%12 == 0 {
					victim := fs.names[(nwalk/12)%len(fs.names)]
					moved := &dpFS{}
					for i, n := range fs.names {
						var lines [][]byte
						for _, line := range bytes.Split(fs.texts[i], []byte("\n")) {
							if f := strings.Fields(string(line)); len(f) == 2 && f[0] == "$INCLUDE" && f[1] == victim {
								k := bytes.LastIndex(line, []byte(victim))
								line = append(append(append([]byte{}, line[:k]...), "sub/"+victim...), line[k+len(victim):]...)
							}
							lines = append(lines, line)
						}
						if n == victim {
							n = "sub/" + n
						}
						moved.add(n, bytes.Join(lines, []byte("\n")))
					}
					r := root
					if r == victim {
						r = "sub/" + r
					}
					emit("walkfs", moved.arg(), hx([]byte(r)), ign)
				}
				// … and once more with one of the files replaced by a DIRECTORY of that name (opens, cannot be read)
				if nwalk%8 == 0 {
					dir := (nwalk / 8) % len(fs.names)
					parts := make([]string, len(fs.names))
					for i := range fs.names {
						if i == dir {
							parts[i] = hx([]byte(fs.names[i])) + ":-:1"
						} else {
							parts[i] = hx([]byte(fs.names[i])) + ":" + hx(fs.texts[i]) + ":0"
						}
					}
					emit("walkfsdir", strings.Join(parts, ","), hx([]byte(root)), ign)
				}
			}
		}
	}

	// (b) hand-written graphs
	{
		inc := func(names ...string) []byte {
			var ls []string
			for _, n := range names {
				ls = append(ls, "$INCLUDE "+n)
			}
			return dpLinesText(ls...)
		}
		mk := func(kv ...string) *dpFS {
			fs := &dpFS{}
			for i := 0; i+1 < len(kv); i += 2 {
				fs.add(kv[i], []byte(kv[i+1]))
			}
			return fs
		}
		for _, ign := range []string{"0", "1"} {
			// the non-root cycle
			walk(mk("root", string(inc("a")), "a", string(inc("b")), "b", string(inc("a"))), "root", ign)
			// root includes itself; root -> a -> root
			walk(mk("root", string(inc("root"))), "root", ign)
			walk(mk("root", string(inc("a")), "a", string(inc("root"))), "root", ign)
			// a file below the root including itself
			walk(mk("root", string(inc("a")), "a", string(inc("a"))), "root", ign)
			// diamond with VALUE bodies, with ATTRIBUTE bodies
			walk(mk("root", "VALUE Ar v 1\n$INCLUDE a\n$INCLUDE b\nVALUE Ar w 2\n", "a", "VALUE Aa v 1\n$INCLUDE c\n", "b", "$INCLUDE c\nVALUE Ab v 1\n", "c", "VALUE Ac v 1\n"), "root", ign)
			walk(mk("root", "$INCLUDE a\n$INCLUDE b\n", "a", "$INCLUDE c\n", "b", "$INCLUDE c\n", "c", "ATTRIBUTE N-c 1 string\n"), "root", ign)
			// the same file twice in a row
			walk(mk("root", "$INCLUDE a\n$INCLUDE a\n", "a", "VALUE Aa v 1\n"), "root", ign)
		}
		// vendor declared in the root, block in an included file and vice versa
		walk(mk("root", "VENDOR v 1\n$INCLUDE a\n", "a", "BEGIN-VENDOR v\nATTRIBUTE x 1 string\nEND-VENDOR v\n"), "root", "0")
		walk(mk("root", "$INCLUDE a\nBEGIN-VENDOR v\nATTRIBUTE x 1 string\nEND-VENDOR v\n", "a", "VENDOR v 1\n"), "root", "0")
		// unclosed vendor block in an included file (a block is local to its file)
		walk(mk("root", "VENDOR v 1\n$INCLUDE a\nATTRIBUTE y 2 string\n", "a", "BEGIN-VENDOR v\nATTRIBUTE x 1 string\n\n# no end\n"), "root", "0")
		walk(mk("root", "VENDOR v 1\nBEGIN-VENDOR v\n$INCLUDE a\nEND-VENDOR v\n", "a", "VALUE a b 1\n"), "root", "0")
		// scanner error in an included file
		walk(mk("root", "VALUE a b 1\n$INCLUDE a\nVALUE a c 2\n", "a", "VALUE d e 3\n#"+strings.Repeat("c", 65536)+"\nVALUE f g 4\n"), "root", "0")
		walk(mk("root", "$INCLUDE a\n", "a", "$INCLUDE b\n", "b", strings.Repeat(" ", 70000)), "root", "0")
		walk(mk("root", "#"+strings.Repeat("c", 65536)+"\n$INCLUDE a\n", "a", "VALUE a b 1\n"), "root", "0")
		// one file included a SECOND time after its first include was completed (twice in a row, through another
		// file first, a diamond) is no cycle — and a real cycle after a completed include still is one; always
		// through the real file system too, where a file has an identity besides its name (os.SameFile)
		for _, fs := range []*dpFS{
			mk("root", "$INCLUDE a\n$INCLUDE a\n", "a", "# x\n"),
			mk("root", "$INCLUDE a\n$INCLUDE b\n", "a", "$INCLUDE b\n", "b", "# x\n"),
			mk("root", "$INCLUDE a\n$INCLUDE b\n", "a", "$INCLUDE c\n", "b", "$INCLUDE c\n", "c", "# x\n"),
			mk("root", "$INCLUDE a\n$INCLUDE b\n", "a", "# x\n", "b", "$INCLUDE b\n"),
			mk("root", "$INCLUDE a\n$INCLUDE b\n", "a", "$INCLUDE c\n", "b", "$INCLUDE c\n", "c", "$INCLUDE a\n"),
		} {
			walk(fs, "root", "0")
			emit("walkfs", fs.arg(), hx([]byte("root")), "0")
		}
		// root not in the file system; the empty file system; empty names; empty files
		walk(mk("a", "VALUE a b 1\n"), "root", "0")
		walk(&dpFS{}, "root", "0")
		walk(&dpFS{}, "", "0")
		walk(mk("", "VALUE a b 1\n"), "", "0")
		walk(mk("root", ""), "root", "0")
		walk(mk("root", "$INCLUDE a\n", "a", ""), "root", "0")
		// duplicate names: the first wins
		walk(mk("root", "$INCLUDE a\n", "a", "VALUE first x 1\n", "a", "BOGUS\n"), "root", "0")
		walk(mk("root", "$INCLUDE a\n", "root", "$INCLUDE root\n", "a", "VALUE a b 1\n"), "root", "0")
		// names with bytes >= 0x80, names that differ in case, dotted / slashed names
		walk(mk("r\xc3\xa9", "$INCLUDE \xff\xfe\nVALUE a b 1\n", "\xff\xfe", "VALUE c d 2\n$INCLUDE r\xc3\xa9\n"), "r\xc3\xa9", "0")
		walk(mk("root", "$INCLUDE \xc3\xa9\n$INCLUDE e\xcc\x81\n", "\xc3\xa9", "VALUE a b 1\n", "e\xcc\x81", "VALUE c d 2\n"), "root", "0")
		walk(mk("root", "$INCLUDE ROOT\n", "ROOT", "$INCLUDE Root\n", "Root", "VALUE a b 1\n"), "root", "0")
		walk(mk("root", "$INCLUDE ./root\n", "./root", "$INCLUDE root\n"), "root", "0")
		walk(mk("dir/root", "$INCLUDE a\n", "dir/a", "VALUE a b 1\n", "a", "VALUE c d 2\n"), "dir/root", "0")
		// missing final newline in an included file whose last line is an $INCLUDE
		walk(mk("root", "$INCLUDE a\nVALUE a b 1", "a", "VALUE c d 2\n$INCLUDE b", "b", "VALUE e f 3"), "root", "0")
		walk(mk("root", "$INCLUDE a\r\nVALUE a b 1\r\n", "a", "VALUE c d 2\r\n$INCLUDE b\r", "b", "VALUE e f 3\r"), "root", "0")
		// missing include deep down; faults at different depths and lines
		walk(mk("root", "\n\n$INCLUDE a\n", "a", "# c\n\n\n$INCLUDE b\n", "b", "VALUE a b 1\n\n$INCLUDE nope\n"), "root", "0")
		walk(mk("root", "\n\n$INCLUDE a\nBOGUS\n", "a", "# c\n\n\n$INCLUDE b\n", "b", "VALUE a b 1\n\nVALUE a b x\n"), "root", "0")
		walk(mk("root", "$INCLUDE a\n$INCLUDE b\n", "a", "ATTRIBUTE x 1 string\n", "b", "\nATTRIBUTE x 2 string\n"), "root", "0")
		walk(mk("root", "$INCLUDE a\n$INCLUDE b\n", "a", "ATTRIBUTE x 1 string\n", "b", "\nATTRIBUTE x 2 string\n"), "root", "1")
		walk(mk("root", "$INCLUDE a\n$INCLUDE b\n", "a", "VENDOR v 1\n", "b", "\nVENDOR w 1\n"), "root", "1")
		// $INCLUDE with a comment / odd spacing; an include of a name with '#'
		walk(mk("root", " \t$INCLUDE\t a  # the a file\n$INCLUDE a#b\n", "a", "VALUE a b 1\n", "a#b", "BOGUS\n"), "root", "0")
		// a chain of 150 files (legal, below the cap of the opener)
		for _, n := range []int{150, 199} {
			fs := &dpFS{}
			for i := 0; i < n; i++ {
				name := "f" + itoa(i)
				if i == n-1 {
					fs.add(name, []byte("VALUE last v "+itoa(i)+"\n"))
				} else {
					fs.add(name, []byte("VALUE A"+itoa(i)+" v "+itoa(i)+"\n$INCLUDE f"+itoa(i+1)+"\n"))
				}
			}
			walk(fs, "f0", "0")
		}
		// wide: one root including 300 files one after the other (never more than 2 open)
		{
			fs := &dpFS{}
			var root []string
			for i := 0; i < 300; i++ {
				root = append(root, "$INCLUDE w"+itoa(i))
			}
			fs.add("root", dpLinesText(root...))
			for i := 0; i < 300; i++ {
				fs.add("w"+itoa(i), []byte("VALUE A v "+itoa(i)+"\n"))
			}
			walk(fs, "root", "0")
		}
	}

	// (a) exhaustive include graphs on three files
	{
		names := []string{"a", "b", "c"}
		seqs := dpDistinctSeqs(3)
		per := 2
		if thorough {
			per = 4
		}
		for _, ta := range seqs {
			for _, tb := range seqs {
				for _, tc := range seqs {
					for _, st := range g.dpStyles(per) {
						fs, ign := dpGraphFS(g, names, [][]int{ta, tb, tc}, st)
						walk(fs, "a", ign)
					}
				}
			}
		}
	}
	// every acyclic graph on three files (diamonds, repeated targets of different files) in every style
	{
		names := []string{"a", "b", "c"}
		seqs := dpDistinctSeqs(3)
		for _, ta := range seqs {
			for _, tb := range seqs {
				for _, tc := range seqs {
					targets := [][]int{ta, tb, tc}
					if dpHasCycle(targets) {
						continue
					}
					for st := 0; st < bsCount; st++ {
						fs, ign := dpGraphFS(g, names, targets, st)
						walk(fs, "a", ign)
					}
				}
			}
		}
	}
	// … and on four files: every subset of the 16 edges
	if thorough {
		names := []string{"a", "b", "c", "d"}
		for gi := 0; gi < 1<<16; gi++ {
			targets := make([][]int, 4)
			for i := 0; i < 4; i++ {
				for j := 0; j < 4; j++ {
					if gi&(1<<uint(i*4+j)) != 0 {
						targets[i] = append(targets[i], j)
					}
				}
				if gi%2 == 1 {
					for l, r := 0, len(targets[i])-1; l < r; l, r = l+1, r-1 {
						targets[i][l], targets[i][r] = targets[i][r], targets[i][l]
					}
				}
			}
			fs, ign := dpGraphFS(g, names, targets, g.Intn(bsCount))
			walk(fs, "a", ign)
		}
	}

	// (c) random file systems: bodies of the C16 generator with $INCLUDE lines between declarations
	nRandom := 500
	if thorough {
		nRandom = 5000
	}
	for i := 0; i < nRandom; i++ {
		n := g.Range(1, 5)
		c := newDpCtx(g)
		names := make([]string, 0, n)
		seen := map[string]bool{}
		for len(names) < n {
			nm := "f" + itoa(len(names))
			if g.Chance(1, 3) {
				nm = g.dpToken()
			}
			if !seen[nm] {
				seen[nm] = true
				names = append(names, nm)
			}
		}
		bodies := make([][]*dpDecl, n)
		for j := range bodies {
			bodies[j] = c.genDecls(g.Pick(0, 1, 2, 3, 4, 6))
		}
		addInc := func(from int, target string) {
			b := bodies[from]
			// positions outside a vendor block (mostly)
			var top []int
			depth := 0
			for p := 0; p <= len(b); p++ {
				if depth == 0 || g.Chance(1, 20) {
					top = append(top, p)
				}
				if p < len(b) {
					switch b[p].kind {
					case dkBegin:
						depth = 1
					case dkEnd:
						depth = 0
					}
				}
			}
			p := top[g.Intn(len(top))]
			nb := append([]*dpDecl{}, b[:p]...)
			nb = append(nb, &dpDecl{kind: dkInclude, inc: target})
			bodies[from] = append(nb, b[p:]...)
		}
		// a tree below the root, then sometimes extra edges (diamonds, cycles, missing files)
		for j := 1; j < n; j++ {
			if g.Chance(9, 10) {
				addInc(g.Intn(j), names[j])
			}
		}
		if g.Chance(1, 3) {
			addInc(g.Intn(n), names[g.Intn(n)])
		}
		if g.Chance(1, 10) {
			addInc(g.Intn(n), c.fresh())
		}
		fs := &dpFS{}
		defect := 0
		if g.Chance(1, 4) {
			defect = g.Pick(5, 20)
		}
		for j := range bodies {
			fs.add(names[j], g.dpLayoutDoc(bodies[j], defect).bytes())
		}
		ign := "0"
		if g.Chance(3, 10) {
			ign = "1"
		}
		walk(fs, names[0], ign)
	}

	// (d) I/O failures at chosen places
	genC15IO(g, thorough, emit)

	// (e) the texts of the dictionary-language property (rendered dictionaries, single faults, arbitrary bytes) as
	// file bodies: every fourth one as the root file and as a file the root includes - "never panicking" and
	// the file/line of a ParseError hold for every body, not only for the bodies of the include graphs
	{
		k := 0
		genC16(NewGen(g.U64()), "quick", func(op string, args ...string) {
			if (op != "fault" && op != "parse" && op != "rendered") || len(args) < 2 || args[0] == "-" {
				return
			}
			if k++; k%4 != 0 {
				return
			}
			text := unhx(args[0])
			if bytes.Contains(text, []byte("$INCLUDE")) {
				return
			}
			ign := "0"
			if args[1] == "1" {
				ign = "1"
			}
			fs := &dpFS{}
			fs.add("main", []byte("$INCLUDE  inc # the language texts\n"))
			fs.add("inc", text)
			emit("walk", fs.arg(), hx([]byte([]string{"main", "inc"}[(k/4)%2])), ign)
		})
	}
}

// ---------------------------------------------------------------------------------------------
// walkio: the walk of `walk` over files whose reader or whose Close fails
//
//	op      walkio <fs> <root> <ign> <chunk>     fs = `namehex:texthex:flags,…`, flags = 1 readFails + 2 closeFails
//	result  as for walk, with two more classes:  err Read - 0 - <trace>        (the reader's error, bare)
//	                                             err Close <file> <line> <name> <trace>   (ParseError at the $INCLUDE)
//
// What a file of this opener does (this is what RV.Model.DictParserIO models):
//   - Read hands out the text, at most <chunk> octets per call when chunk > 0, always with a nil error; the
//     call after the last octet returns (0, io.EOF), or (0, *memReadError) when the file has flag 1.  The
//     error never accompanies data.
//   - the first Close on a handle returns *memCloseError when the file has flag 2, else nil; every later Close
//     on the same handle returns errDpAlreadyClosed (as *os.File does).  Every Close call is logged.
//   - every OpenFile makes a new handle.

type memReadError struct{ name string }

func (e *memReadError) Error() string { return "mem: read error in " + strconv.Quote(e.name) }

type memCloseError struct{ name string }

func (e *memCloseError) Error() string { return "mem: close error on " + strconv.Quote(e.name) }

var errDpAlreadyClosed = errors.New("mem: file already closed")

type dpOpenerIO struct {
	*dpOpener
	flags map[string]int
	chunk int
}

func (o *dpOpenerIO) add(name string, data []byte, flags int) {
	if _, dup := o.files[name]; !dup {
		o.files[name] = data
		o.flags[name] = flags
	}
}

func (o *dpOpenerIO) OpenFile(name string) (dictionary.File, error) {
	f, err := o.dpOpener.OpenFile(name)
	if err != nil {
		return nil, err
	}
	return &dpFileIO{dpFile: f.(*dpFile), flags: o.flags[name], chunk: o.chunk}, nil
}

type dpFileIO struct {
	*dpFile
	flags, chunk int
}

func (f *dpFileIO) Read(p []byte) (int, error) {
	if f.chunk > 0 && len(p) > f.chunk {
		p = p[:f.chunk]
	}
	n, err := f.r.Read(p) // bytes.Reader: (n > 0, nil) while octets are left, then (0, io.EOF)
	if err == io.EOF && f.flags&1 != 0 {
		return 0, &memReadError{f.name}
	}
	return n, err
}

func (f *dpFileIO) Close() error {
	first := !f.closed
	f.dpFile.Close() // logs the call, keeps the count of open handles
	switch {
	case !first:
		return errDpAlreadyClosed
	case f.flags&2 != 0:
		return &memCloseError{f.name}
	}
	return nil
}

// dpClassifyIO: dpClassify plus the two I/O classes.  "Read" is the reader's error returned as it is
// (not wrapped: a type assertion, not errors.As); "Close" is a ParseError whose Inner is the Close error.
func dpClassifyIO(err error) dpFailure {
	if re, ok := err.(*memReadError); ok && re != nil {
		_ = err.Error()
		return dpFailure{class: "Read"}
	}
	f := dpClassify(err)
	if pe, ok := err.(*dictionary.ParseError); ok && pe != nil {
		if ce, ok := pe.Inner.(*memCloseError); ok && ce != nil {
			f.class, f.hasDetail, f.detail = "Close", true, ce.name
		}
	}
	return f
}

func evalC15IO(args []string) string {
	if len(args) != 4 || args[2] != "0" && args[2] != "1" || args[0] == "" {
		return "BAD-CASE"
	}
	o := &dpOpenerIO{dpOpener: newDpOpener(), flags: map[string]int{}, chunk: atoi(args[3])}
	if o.chunk < 0 {
		return "BAD-CASE"
	}
	if args[0] != "-" {
		for _, e := range strings.Split(args[0], ",") {
			f := strings.Split(e, ":")
			if len(f) != 3 || len(f[2]) != 1 || f[2][0] < '0' || f[2][0] > '3' {
				return "BAD-CASE"
			}
			o.add(string(unhx(f[0])), unhx(f[1]), int(f[2][0]-'0'))
		}
	}
	root := string(unhx(args[1]))
	p := dictionary.Parser{Opener: o, IgnoreIdenticalAttributes: args[2] == "1"}
	// history, as in walk: for every second case the same Parser first walks from every file (results ignored)
	if h := fnv.New32a(); len(o.files) <= 6 {
		h.Write([]byte(args[0] + args[1]))
		if h.Sum32()%2 == 0 {
			names := make([]string, 0, len(o.files))
			for n := range o.files {
				names = append(names, n)
			}
			sort.Strings(names)
			for _, n := range names {
				func() {
					defer func() { recover() }()
					p.ParseFile(n)
				}()
				if o.exceeded {
					return "DEPTH-EXCEEDED"
				}
			}
			if o.nopen != 0 {
				return "err Other - 0 - handles-left-open-by-earlier-walks"
			}
			o.events = nil
		}
	}
	d, err := p.ParseFile(root)
	if o.exceeded {
		return "DEPTH-EXCEEDED"
	}
	// per HANDLE (the trace names files, not handles): a handle that was opened and never closed
	if o.nopen != 0 {
		return "err HandleLeak - " + itoa(o.nopen) + " - " + o.trace()
	}
	if err != nil {
		f := dpClassifyIO(err)
		file, detail := "-", "-"
		if f.hasFile {
			file = hx([]byte(f.file))
		}
		if f.hasDetail {
			detail = hx([]byte(f.detail))
		}
		return "err " + f.class + " " + file + " " + itoa(f.line) + " " + detail + " " + o.trace()
	}
	if d == nil {
		return "err Other - 0 - " + o.trace()
	}
	return "ok " + dpShowDict(d) + " " + o.trace()
}

func (fs *dpFS) argIO(flags []int) string {
	if len(fs.names) == 0 {
		return "-"
	}
	parts := make([]string, len(fs.names))
	for i := range fs.names {
		parts[i] = hx([]byte(fs.names[i])) + ":" + hx(fs.texts[i]) + ":" + itoa(flags[i]&3)
	}
	return strings.Join(parts, ",")
}

// dpHashFlags plants failures by a hash of the case: about 3 files in 8 fail (1 in 20 in a large file
// system) - a third of them on Read, a third on Close, a third on both; chunk is the reader's chunk size.
func dpHashFlags(fs *dpFS, root string) (flags []int, chunk int) {
	h := fnv.New32a()
	h.Write([]byte(root))
	for i := range fs.names {
		h.Write([]byte(fs.names[i]))
		h.Write([]byte{0})
		if t := fs.texts[i]; len(t) > 256 {
			h.Write(t[:256])
		} else {
			h.Write(t)
		}
	}
	x := h.Sum32()
	mod := uint32(8)
	if len(fs.names) > 8 {
		mod = 60
	}
	flags = make([]int, len(fs.names))
	for i := range flags {
		y := x*2654435761 + uint32(i)*40503
		y ^= y >> 15
		y *= 2246822519
		y ^= y >> 13
		if v := y % mod; v < 3 {
			flags[i] = int(v) + 1
		}
	}
	chunk = []int{0, 0, 0, 1, 2, 3, 7, 64, 4096}[(x>>7)%9]
	return flags, chunk
}

func genC15IO(g *Gen, thorough bool, emit func(op string, args ...string)) {
	// kv = name, text, flags (as a decimal digit) …
	io := func(chunk int, root, ign string, kv ...string) {
		fs := &dpFS{}
		var flags []int
		for i := 0; i+2 < len(kv); i += 3 {
			fs.add(kv[i], []byte(kv[i+1]))
			flags = append(flags, atoi(kv[i+2]))
		}
		emit("walkio", fs.argIO(flags), hx([]byte(root)), ign, itoa(chunk))
	}
	long := "#" + strings.Repeat("c", 65535) // a line of exactly 65536 octets: does not fit
	fits := "#" + strings.Repeat("c", 65534) // 65535 octets: fits
	for _, chunk := range []int{0, 1, 5, 4096} {
		// the reader fails: in the root, in an included file, two levels down; after a complete line, after
		// an unterminated complete declaration, in the middle of a declaration (the fragment is a line)
		io(chunk, "root", "0", "root", "VALUE a b 1\n", "1")
		io(chunk, "root", "0", "root", "VALUE a b 1", "1")
		io(chunk, "root", "0", "root", "VALUE a b 1\nVAL", "1")
		io(chunk, "root", "0", "root", "VALUE a b 1\n$INCLUDE", "1")
		io(chunk, "root", "0", "root", "", "1")
		io(chunk, "root", "0", "root", "$INCLUDE a\nVALUE x y 1\n", "0", "a", "VALUE a b 2\n", "1")
		io(chunk, "root", "0", "root", "$INCLUDE a\nVALUE x y 1\n", "0", "a", "VALUE a b 2\nVAL", "1")
		io(chunk, "root", "0", "root", "$INCLUDE a\nVALUE x y 1\n", "0", "a", "", "1")
		io(chunk, "root", "0", "root", "VALUE x y 1\n$INCLUDE a\n", "1", "a", "VALUE a b 2\n", "0")
		io(chunk, "root", "0", "root", "\n$INCLUDE a\n", "0", "a", "# c\n\n$INCLUDE b\nVALUE a b 2\n", "2", "b", "VALUE c d 3\n", "1")
		io(chunk, "root", "0", "root", "$INCLUDE a\n$INCLUDE b\n", "0", "a", "VALUE a b 2\n", "0", "b", "VALUE c d 3\n", "1")
		// … and what the scanner and the block test make of it: s.Err() comes before the unclosed block;
		// ErrTooLong comes before the reader's error; a last line of 65535 octets still fits
		io(chunk, "root", "0", "root", "VENDOR v 1\nBEGIN-VENDOR v\nATTRIBUTE x 1 string\n", "1")
		io(chunk, "root", "0", "root", "VENDOR v 1\n$INCLUDE a\n", "0", "a", "BEGIN-VENDOR v\nATTRIBUTE x 1 string\n", "1")
		io(chunk, "root", "0", "root", "VALUE a b 1\n"+long, "1")
		io(chunk, "root", "0", "root", "VALUE a b 1\n"+long+"\nVALUE c d 2\n", "1")
		io(chunk, "root", "0", "root", "VALUE a b 1\n"+fits, "1")
		io(chunk, "root", "0", "root", "VALUE a b 1\n"+fits+"\n", "1")
		io(chunk, "root", "0", "root", "$INCLUDE a\n", "0", "a", fits+"\r\nVALUE c d 2\n"+long, "1")
		// a refused line, a missing file, a cycle before the end of a file whose reader fails: reported as ever
		io(chunk, "root", "0", "root", "BOGUS\nVALUE a b 1\n", "1")
		io(chunk, "root", "0", "root", "$INCLUDE nope\n", "1")
		io(chunk, "root", "0", "root", "$INCLUDE a\n", "1", "a", "$INCLUDE root\n", "1")
		// Close fails: after a successful include, at different lines and depths; twice the same file
		io(chunk, "root", "0", "root", "$INCLUDE a\nVALUE x y 1\n", "0", "a", "VALUE a b 2\n", "2")
		io(chunk, "root", "0", "root", "# c\n\n  $INCLUDE a # the a file\nVALUE x y 1\n", "0", "a", "VALUE a b 2\n", "2")
		io(chunk, "root", "0", "root", "$INCLUDE a\r\nVALUE x y 1\r\n", "0", "a", "", "2")
		io(chunk, "root", "0", "root", "$INCLUDE a", "0", "a", "VALUE a b 2", "2")
		io(chunk, "root", "0", "root", "VALUE x y 1\n$INCLUDE a\n", "0", "a", "\n\n\n$INCLUDE b\n", "0", "b", "VALUE c d 3\n", "2")
		io(chunk, "root", "0", "root", "$INCLUDE a\n$INCLUDE b\n", "0", "a", "$INCLUDE c\n", "0", "b", "$INCLUDE c\n", "0", "c", "VALUE c d 3\n", "2")
		io(chunk, "root", "0", "root", "$INCLUDE a\n$INCLUDE b\n$INCLUDE b\n", "0", "a", "VALUE a b 2\n", "0", "b", "VALUE c d 3\n", "2")
		io(chunk, "root", "1", "root", "$INCLUDE a\n$INCLUDE a\n", "0", "a", "ATTRIBUTE x 1 string\n", "2")
		// Close failures that must not show: the root's; a file whose parse failed (refused line, missing
		// include, cycle, read error: only the deferred Close runs); a file that is never opened
		io(chunk, "root", "0", "root", "VALUE a b 1\n", "2")
		io(chunk, "root", "0", "root", "$INCLUDE a\n", "2", "a", "VALUE a b 2\n", "0")
		io(chunk, "root", "0", "root", "$INCLUDE a\n", "0", "a", "BOGUS\n", "2")
		io(chunk, "root", "0", "root", "$INCLUDE a\n", "0", "a", "$INCLUDE nope\n", "2")
		io(chunk, "root", "0", "root", "$INCLUDE a\n", "2", "a", "$INCLUDE root\n", "2")
		io(chunk, "root", "0", "root", "$INCLUDE a\n", "0", "a", "$INCLUDE a\n", "2")
		io(chunk, "root", "0", "root", "$INCLUDE a\n", "0", "a", "VALUE a b 2\n", "3")
		io(chunk, "root", "0", "root", "$INCLUDE a\n", "0", "a", "VENDOR v 1\nBEGIN-VENDOR v\n", "2")
		io(chunk, "root", "0", "root", "VALUE a b 1\n", "0", "a", "VALUE a b 2\n", "3")
		io(chunk, "root", "0", "root", "$INCLUDE a\n", "0", "a", "VALUE first x 1\n", "0", "a", "BOGUS\n", "3")
		io(chunk, "root", "0", "root", "$INCLUDE a\n", "0", "a", "VALUE first x 1\n", "2", "a", "VALUE second x 1\n", "0")
		// Close fails inside, the walk goes on outside a vendor block / the include stands in one
		io(chunk, "root", "0", "root", "VENDOR v 1\nBEGIN-VENDOR v\n$INCLUDE a\nEND-VENDOR v\n", "0", "a", "VALUE a b 2\n", "3")
		// no file, no root
		io(chunk, "root", "0")
		io(chunk, "root", "0", "a", "VALUE a b 1\n", "3")
		io(chunk, "", "0", "", "$INCLUDE \xff\n", "0", "\xff", "VALUE a b 1\n", "2")
	}
	// chains: the failure at the bottom of 60 nested includes, on Read and on Close
	for _, fl := range []string{"1", "2"} {
		var kv []string
		for i := 0; i < 60; i++ {
			if i == 59 {
				kv = append(kv, "f"+itoa(i), "VALUE last v "+itoa(i)+"\n", fl)
			} else {
				kv = append(kv, "f"+itoa(i), "VALUE A"+itoa(i)+" v "+itoa(i)+"\n$INCLUDE f"+itoa(i+1)+"\nVALUE B"+itoa(i)+" v 0\n", "0")
			}
		}
		io(3, "f0", "0", kv...)
	}
	// random: include graphs on 2..5 files with C16 bodies, flags and chunk sizes drawn from g
	n := 150
	if thorough {
		n = 4000
	}
	for i := 0; i < n; i++ {
		k := g.Range(2, 5)
		c := newDpCtx(g)
		names := make([]string, k)
		for j := range names {
			names[j] = "f" + itoa(j)
		}
		fs := &dpFS{}
		flags := make([]int, k)
		for j := 0; j < k; j++ {
			var lines []string
			decls := c.genDecls(g.Pick(0, 1, 2, 3))
			doc := string(g.dpLayoutDoc(decls, 0).bytes())
			if doc != "" {
				lines = append(lines, strings.TrimSuffix(doc, "\n"))
			}
			// includes of later files (a DAG), sometimes of any file (cycles), sometimes of a missing one
			for t := j + 1; t < k; t++ {
				if g.Chance(1, 2) {
					lines = append(lines, "$INCLUDE "+names[t])
				}
			}
			if g.Chance(1, 8) {
				lines = append(lines, "$INCLUDE "+names[g.Intn(k)])
			}
			if g.Chance(1, 15) {
				lines = append(lines, "$INCLUDE zz")
			}
			if g.Chance(1, 3) { // includes first
				for l, r := 0, len(lines)-1; l < r; l, r = l+1, r-1 {
					lines[l], lines[r] = lines[r], lines[l]
				}
			}
			text := strings.Join(lines, "\n")
			if len(lines) > 0 && g.Chance(4, 5) {
				text += "\n"
			}
			if g.Chance(1, 10) && len(text) > 0 { // the reader stops somewhere in the text
				text = text[:g.Intn(len(text))]
				flags[j] = 1
			} else if g.Chance(1, 3) {
				flags[j] = g.Pick(1, 2, 2, 3)
			}
			fs.add(names[j], []byte(text))
		}
		ign := "0"
		if g.Chance(3, 10) {
			ign = "1"
		}
		emit("walkio", fs.argIO(flags), hx([]byte(names[0])), ign, itoa(g.Pick(0, 0, 1, 2, 5, 16, 512)))
	}
}
