//go:build !c19nolink

package main

// Direct access to the unexported rfc2759.parityPadDESKey (C19, op "paritypad").  The body-less
// declaration needs the empty assembly file linkname_c19.s in this package.  If the symbol disappears
// from /repo (renamed, inlined away by hand) this file stops linking; building with -tags c19nolink
// replaces it by a stub (c19_nolink.go) so that the other properties' harness still builds, and C19
// then reports the broken tie.

import (
	_ "unsafe" // go:linkname

	_ "layeh.com/radius/rfc2759"
)

const c19LinkAvailable = true

//go:linkname rfc2759ParityPadDESKey layeh.com/radius/rfc2759.parityPadDESKey
func rfc2759ParityPadDESKey(in []byte) []byte
