module layeh.com/radius/verifharness

go 1.23

require layeh.com/radius v0.0.0

require (
	golang.org/x/crypto v0.13.0 // indirect
	golang.org/x/text v0.13.0 // indirect
)

replace layeh.com/radius => /repo
