module layeh.com/radius/verifharness

go 1.23

require layeh.com/radius v0.0.0

replace layeh.com/radius => /repo
