#!/bin/sh
# MANIFEST.setup_cmd: build everything from files on disk (offline).
set -e
cd "$(dirname "$0")"
export GOFLAGS=-mod=mod GOPROXY=off GOSUMDB=off GOTOOLCHAIN=local CGO_ENABLED=0
mkdir -p .work/bin evidence replays
cp /repo/go.sum harness/go.sum
[ -f checklib/pregen.py ] && python3 checklib/pregen.py
(cd harness && go build -tags verif -o ../.work/bin/vh ./cmd/vh)
.work/bin/vh probe lean/RV/Facts/Generated.lean .work/facts.json lean/RV/Facts/C18
(cd lean && lake build RV driver RV.Facts.TieC18 $(ls RV/Facts/Tie*.lean RV/Props/*.lean | sed 's#/#.#g; s#\.lean$##'))
echo setup-ok
